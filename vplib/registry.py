"""Per-property registry: theorems (in coq/properties/<ID>.v), instance obligations on the
regenerated tables, script generators for the correspondence."""
from . import props as P
from .common import CODECS

ALL = CODECS


from . import decls as D

OKB_MEANING = ("(clause, byte-or-item): 1 BITS outside 1..8 | 2 duplicate items | 3 item fails its own "
               "round trip | 4 try_from_bits accepts a byte inconsistently with unsafe_from_bits/width | "
               "5 try_from_ascii accepts a byte that is not an item or disagrees with unsafe_from_ascii | "
               "6 two items share a display character")


def okb(profile, lift=False):
    return [{"name": "codec_ok(%s)" % c, "expr": "codec_okb %s" % c,
             "witness": "codec_ok_witness %s" % c, "witness_meaning": OKB_MEANING,
             "lift": (["C05.C05_tables_consistent %s @INST" % c] if lift else [])} for c in CODECS]


def write_decls():
    """Translator (b): coq/gen/Decls.v from the enum declarations in the .rs sources."""
    import os
    from .common import GEN, coqc, CheckError
    ds = D.builtin_decls()
    path = os.path.join(GEN, "Decls.v")
    with open(path, "w") as f:
        f.write("(* GENERATED from the #[derive(Codec)] enums of /repo. *)\n"
                "From Coq Require Import List NArith Bool.\nFrom BioSeq Require Import Bits Codec Tables Derive.\n"
                "Import ListNotations.\nOpen Scope N_scope.\n")
        for k, d in ds.items():
            if d is not None:
                f.write("Definition decl_%s : decl := %s.\n" % (k, D.decl_coq(d)))
    p = coqc(path)
    if p.returncode != 0:
        raise CheckError("Decls.v does not compile: " + (p.stdout + p.stderr)[-2000:])
    return ds


def inst_C05(profile):
    obs = _inst_C05(profile)
    for o in obs:
        o["sweep"] = 256      # each obligation sweeps (at least) the 256 byte values of one codec
    return obs


ALPHABETS = [("dna", "dna_check", "C05_dna_alphabet"), ("iupac", "iupac_check", "C05_iupac_nucleotide_sets"),
             ("amino", "amino_check", "C05_amino_codons"), ("text", "text_check", "C05_text_literal_bytes"),
             ("degen", "degen_check", "C05_degenerate_strong_weak")]


def inst_C01(profile):
    """which bytes are symbol characters: the documented alphabets (the C05 sweeps), and no codec
    accepts a byte >= 0x80 (there is no such symbol character)"""
    obs = okb_lift(["C01.C01_parse_one_symbol_per_byte @C (codec_okb_sound @C @INST)",
                    "C01.C01_display_parse_roundtrip @C (codec_okb_sound @C @INST)"])(profile)
    for c, chk, _ in ALPHABETS:
        obs.append({"name": "the symbol characters of %s are the documented alphabet" % c, "expr": "%s %s" % (chk, c)})
    for c in CODECS:
        obs.append({"name": "%s: no byte >= 0x80 is a symbol character" % c,
                    "expr": "forallb (fun b => match Codec.try_ascii %s b with Some _ => (b <? 128)%%N | None => true end) "
                            "bytes256" % c,
                    "witness": "find (fun b => match Codec.try_ascii %s b with Some _ => negb (b <? 128)%%N | None => false end) "
                               "bytes256" % c,
                    "witness_meaning": "a byte >= 0x80 that try_from_ascii accepts"})
    return obs


def _inst_C05(profile):
    obs = okb(profile, lift=True)
    for c, chk, thm in ALPHABETS:
        obs.append({"name": "documented alphabet of %s" % c, "expr": "%s %s" % (chk, c),
                    "lift": ["C05.%s %s @INST" % (thm, c)]})
    for c in ("dna", "iupac", "mdna", "miupac", "degen"):
        obs.append({"name": "complement letters of %s" % c, "expr": "comp_letters_check %s" % c,
                    "lift": ["C05.C05_complement_letters %s @INST" % c]})
    # the literal macros carry their own copy of the DNA / IUPAC alphabets
    for c, t in (("dna", "macro_dna"), ("iupac", "macro_iupac")):
        obs.append({"name": "the %s! macro's alphabet is the codec's: every byte it accepts decodes to the same "
                            "symbol at run time" % c,
                    "expr": "macro_agreesb %s %s" % (c, t)})
    ds = write_decls()
    for c, d in ds.items():
        if d is None:
            continue
        obs.append({"name": "derived codec %s implements its enum declaration (codes, alternatives, display "
                            "characters; every other byte refused)" % c,
                    "expr": "derives_to (width_of_tables width_none width_attr) decl_%s %s" % (c, c)})
    return obs



import os
import re


def theorems_of(pid):
    """names of the theorems stated in coq/properties/<pid>.v"""
    from .common import COQ
    path = os.path.join(COQ, "properties", "%s.v" % pid)
    if not os.path.exists(path):
        return []
    return re.findall(r"^Theorem\s+(\w+)", open(path).read(), flags=re.M)


def okb_lift(thms_per_codec, codecs=CODECS):
    """codec_ok obligations, each lifted through generic theorems: the statement of every listed
    theorem is re-established for the real codec on every run"""
    def f(profile):
        out = []
        for c in CODECS:
            lifts = [t.replace("@C", c) for t in thms_per_codec] if c in codecs else []
            out.append({"name": "codec_ok(%s)" % c, "expr": "codec_okb %s" % c,
                        "witness": "codec_ok_witness %s" % c, "witness_meaning": OKB_MEANING,
                        "lift": lifts})
        return out
    return f


def inst_C07(profile):
    obs = okb(profile)
    for c in sorted(COMP):
        obs.append({"name": "complement of %s maps symbols to symbols" % c,
                    "expr": "closedb %s (comp_sym %s)" % (c, c),
                    "lift": ["closedb_sound %s (comp_sym %s) @INST" % (c, c)]})
        obs.append({"name": "complement of %s twice is the identity on symbols" % c,
                    "expr": "agreeb %s (fun x => total (comp_sym %s) (total (comp_sym %s) x)) (fun x => x)" % (c, c, c),
                    "lift": ["agreeb_sound %s _ _ @INST" % c]})
    return obs


COMP = {"dna", "iupac", "mdna", "miupac", "degen"}


def inst_C09(profile):
    oks = "(codec_okb_sound @C @INST)"
    f = okb_lift(["C09.C09_rotate_left @C " + oks, "C09.C09_rotate_right @C " + oks,
                  "C09.C09_push_right @C " + oks, "C09.C09_push_left @C " + oks,
                  "C09.C09_results_canonical @C " + oks])
    obs = f(profile)
    # reverse: the generic route for every codec that is not 2 bits wide, the table route for DNA
    for c in CODECS:
        if c != "dna":
            obs.append({"name": "%s is not 2 bits wide (generic k-mer reversal applies)" % c,
                        "expr": "negb (Nat.eqb (c_bits %s) 2)" % c})
    obs.append({"name": "dna is 2 bits wide (table k-mer reversal, complement by xor apply)",
                "expr": "Nat.eqb (c_bits dna) 2"})
    # the xor complement of the k-mer is the codec's complement on every DNA symbol
    obs.append({"name": "flipping both bits of a DNA symbol is the codec complement",
                "expr": "forallb (fun x => opt_eqb (comp_sym dna x) (Some (comp2 x))) (c_items dna)"})
    obs.append({"name": "the 2-bit block table of Kmer::rev, observed through the API on all 256 values of a 4-mer",
                "expr": "olist_eqb rev2bit_k4 (map (fun b => Some (rev2bit_byte b)) bytes256)"})
    return obs


def inst_C20(profile):
    obs = okb(profile)
    for c in ("mdna", "miupac"):
        for f in ("mask_sym", "unmask_sym", "comp_sym"):
            obs.append({"name": "%s of %s maps symbols to symbols" % (f, c),
                        "expr": "closedb %s (%s %s)" % (c, f, c),
                        "lift": ["closedb_sound %s (%s %s) @INST" % (c, f, c)]})
        for f in ("mask_sym", "unmask_sym"):
            obs.append({"name": "%s of %s commutes with complement on symbols" % (f, c),
                        "expr": "agreeb %s (fun x => total (comp_sym %s) (total (%s %s) x)) "
                                "(fun x => total (%s %s) (total (comp_sym %s) x))" % (c, c, f, c, f, c, c),
                        "lift": ["agreeb_sound %s _ _ @INST" % c]})
    m, u = "mask_sym miupac", "unmask_sym miupac"
    for name, f, g, h in [("mask is idempotent (5-bit)", m, m, m), ("unmask is idempotent (5-bit)", u, u, u),
                          ("unmask after mask is unmask (5-bit)", m, u, u),
                          ("mask after unmask is mask (5-bit)", u, m, m)]:
        obs.append({"name": name, "expr": "agreeb miupac (fun x => total (%s) (total (%s) x)) (total (%s))" % (g, f, h),
                    "lift": ["agreeb_sound miupac _ _ @INST"]})
    for f in ("mask_sym mdna", "unmask_sym mdna"):
        obs.append({"name": "%s is an involution (4-bit)" % f,
                    "expr": "agreeb mdna (fun x => total (%s) (total (%s) x)) (fun x => x)" % (f, f),
                    "lift": ["agreeb_sound mdna _ _ @INST"]})
    obs.append({"name": "5-bit masking: case forms and nucleotide set", "expr": "mask5_okb miupac",
                "lift": ["C20.C20_mask5_symbols miupac @INST"]})
    obs.append({"name": "4-bit masking: toggles A,C,G,T,N; gap and pad fixed", "expr": "mask4_okb mdna",
                "lift": ["C20.C20_mask4_symbols mdna @INST"]})
    return obs


def inst_C12(profile):
    obs = okb_lift(["C12.C12_and_positionwise @C (codec_okb_sound @C @INST)",
                    "C12.C12_contains @C (codec_okb_sound @C @INST)"], codecs=["iupac"])(profile)
    obs.append({"name": "IUPAC codes are the documented nucleotide sets (bit 3 = A .. bit 0 = T)",
                "expr": "iupac_check iupac", "lift": ["C05Check.iupac_check_sound iupac @INST"]})
    obs.append({"name": "complementing an IUPAC code complements each member of its set (A<->T, C<->G: the "
                        "4-bit code reversed)",
                "expr": "forallb (fun x => opt_eqb (comp_sym iupac x) (Some (of_bits (rev (to_bits 4 x))))) "
                        "(c_items iupac) && comp_letters_check iupac",
                "witness": "find (fun x => negb (opt_eqb (comp_sym iupac x) (Some (of_bits (rev (to_bits 4 x)))))) "
                           "(c_items iupac)",
                "witness_meaning": "an IUPAC code whose complement is not the member-wise complement"})
    obs.append({"name": "Iupac::from(Dna) is the singleton set of the base",
                "expr": "forallb (fun p => N.eqb (snd p) (base_bit (fst p))) dna_to_iupac && "
                        "Nat.eqb (length dna_to_iupac) 4"})
    return obs


def inst_C19(profile):
    obs = okb(profile)
    obs.append({"name": "Dna -> Iupac keeps the display letter of every base",
                "expr": "forallb (fun p => opt_eqb (to_char iupac (snd p)) (to_char dna (fst p))) dna_to_iupac && "
                        "Nat.eqb (length dna_to_iupac) 4"})
    obs.append({"name": "Dna -> text keeps the display letter of every base",
                "expr": "forallb (fun p => opt_eqb (to_char text (snd p)) (to_char dna (fst p))) dna_to_text && "
                        "Nat.eqb (length dna_to_text) 4"})
    obs.append({"name": "text -> Dna succeeds exactly for A, C, G, T (all 256 bytes)",
                "expr": "forallb (fun b => match nth (N.to_nat b) text_to_dna None with "
                        "| Some d => opt_eqb (to_char dna d) (Some b) "
                        "| None => negb (inb b [65; 67; 71; 84]) "
                        "end) bytes256"})
    return obs


def inst_C13(profile):
    obs = okb(profile)
    obs.append({"name": "STANDARD.to_amino on all 64 codons = NCBI translation table 1",
                "expr": "std_dna_check amino std_to_amino", "witness": "std_dna_witness amino std_to_amino",
                "witness_meaning": "(c0, c1, c2): DNA codon (codes of its three bases) translated differently from NCBI table 1",
                "lift": ["C13.C13_standard_table_is_ncbi1 amino std_to_amino @INST"]})
    obs.append({"name": "the dump of STANDARD.to_amino equals the model's table read on all 64 codons",
                "expr": "std_dump_is_model amino std_to_amino"})
    obs.append({"name": "codons of length 0,1,2,4,5 are refused (panic)", "expr": "std_to_amino_badlen_panics"})
    obs.append({"name": "dna is 2 bits wide", "expr": "Nat.eqb (c_bits dna) 2"})
    return obs


def inst_C14(profile):
    obs = okb(profile)
    obs.append({"name": "STANDARD.try_to_amino on all 16^3 IUPAC codons: sound, complete on gap-free codons, no panic",
                "expr": "std_iupac_check amino std_try_to_amino",
                "witness": "std_iupac_witness amino std_try_to_amino",
                "witness_meaning": "(c0, c1, c2): raw IUPAC codes of the first codon whose translation is unsound, "
                                   "incomplete or not an amino acid / ambiguity",
                "lift": ["C14.C14_ambiguous_translation_sound_and_complete amino std_try_to_amino @INST"]})
    obs.append({"name": "STANDARD.try_to_codon for all 21 amino symbols: a codon exactly when one IUPAC codon matches "
                        "all and only the DNA codons of the amino acid",
                "expr": "std_rev_check amino std_try_to_codon",
                "witness": "find (fun p => negb (rev_ok amino (fst p) (snd p))) std_try_to_codon",
                "lift": ["C14.C14_reverse_translation_exact amino std_try_to_codon @INST"]})
    obs.append({"name": "codons of length 0,1,2,4,5,6,9 are reported invalid",
                "expr": "forallb (fun e => match e with (_, TInvalid, _) => true | _ => false end) "
                        "std_try_to_amino_badlen"})
    obs.append({"name": "the reverse-translated codon translates back to the amino acid",
                "expr": "forallb (fun p => match snd p with COk [c0; c1; c2] => tres_eqb (nth (iupac_index c0 c1 c2) "
                        "std_try_to_amino TPanic) (TOk (fst p)) | _ => true end) std_try_to_codon"})
    return obs


PROOF_IMPORTS = ["Bits", "Codec", "Tables", "Spec", "Derive", "C05Check", "SeqModel", "SeqProofs", "SeqProofs2",
                 "SymMap", "C20Check", "IterProofs", "KmerModel", "KmerProofs", "KmerProofs2", "OrderProofs",
                 "OrderKmer", "Rev2Bit", "KmerDna", "IupacProofs", "Translate", "CodonTable", "DeriveProofs", "History", "VM", "Refine"]

def _c16(ctx, spec):
    from .progchecks import c16_programs
    c16_programs(ctx, spec)


def _c17(ctx, spec):
    from .progchecks import c17_programs
    c17_programs(ctx, spec)


def inst_C16(profile):
    obs = okb(profile)
    for c, t in (("dna", "macro_dna"), ("iupac", "macro_iupac")):
        obs.append({"name": "the %s! macro alphabet agrees with the runtime decoder on every byte it accepts" % c,
                    "expr": "macro_agreesb %s %s" % (c, t),
                    "lift": ["macro_agreesb_sound %s (codec_okb_sound %s inst_%d) %s @INST" % (c, c, CODECS.index(c), t)]})
    return obs


def inst_C17(profile):
    obs = okb(profile)
    obs.append({"name": "parse_width = least n with max < 2^n (and the #[bits] check), on its whole numeric domain",
                "expr": "width_tables_ok width_none width_attr",
                "witness": "width_witness width_none width_attr",
                "witness_meaning": "(#[bits] attribute or None, largest discriminant) where the compiled parse_width "
                                   "differs from the specification"})
    obs[-1]["lift"] = ["C17.C17_width_table_meets_specification width_none width_attr @INST"]
    ds = write_decls()
    for c, d in ds.items():
        if d is not None:
            obs.append({"name": "in-tree enum %s: derive model = compiled codec" % c,
                        "expr": "derives_to (width_of_tables width_none width_attr) decl_%s %s" % (c, c)})
    return obs


C05_THEOREMS = ["C05_tables_consistent", "C05_dna_alphabet", "C05_iupac_nucleotide_sets", "C05_amino_codons",
                "C05_text_literal_bytes", "C05_degenerate_strong_weak", "C05_complement_letters"]

REGISTRY = {
    "C05": dict(theorems=C05_THEOREMS, instances=inst_C05, exhaustive=True,
                imports=["Bits", "Codec", "Tables", "Spec", "Derive", "C05Check", "Macro"],
                extra_imports=["From BioSeqProps Require Import C05.", "From BioSeqGen Require Import Decls."],
                rule="complete enumeration inside the kernel: every obligation is a boolean sweep over all 256 byte "
                     "values (as ASCII input and as bit pattern) of one codec's regenerated tables, for the dev and "
                     "the release build; evaluations = table entries swept",
                notes=["text::Dna::try_from_bits accepts every byte: documented ('a literal interpretation of bytes')"]),
    "C01": dict(theorems=theorems_of("C01"), imports=PROOF_IMPORTS,
                extra_imports=["From BioSeqProps Require Import C01."],
                instances=inst_C01,
                generators=[(c, P.gen_C01) for c in ALL]),
    "C02": dict(theorems=theorems_of("C02"), imports=PROOF_IMPORTS,
                extra_imports=["From BioSeqProps Require Import C02."],
                instances=okb_lift(["C02.C02_equal_iff_same_symbols @C (codec_okb_sound @C @INST)",
                                    "C02.C02_equal_to_text @C (codec_okb_sound @C @INST)",
                                    "C02.C02_kmer_equals_sequence @C debug_assertions (codec_okb_sound @C @INST)",
                                    "C02.C02_kmer_hashes_like_slice @C (codec_okb_sound @C @INST)"]),
                generators=[(c, P.gen_C02) for c in ALL]),
    "C03": dict(theorems=theorems_of("C03"), imports=PROOF_IMPORTS,
                extra_imports=["From BioSeqProps Require Import C03."],
                instances=okb_lift(["C03.C03_range_out_of_bounds_panics @C (codec_okb_sound @C @INST)",
                                    "C03.C03_nth_in_bounds @C (codec_okb_sound @C @INST)",
                                    "C03.C03_get @C (codec_okb_sound @C @INST)"]),
                generators=[(c, P.gen_C03) for c in ALL]),
    "C04": dict(theorems=theorems_of("C04"), imports=PROOF_IMPORTS,
                extra_imports=["From BioSeqProps Require Import C04."],
                instances=okb_lift(["C04.C04_slice_to_integer @C (codec_okb_sound @C @INST)",
                                    "C04.C04_kmer_value_canonical @C (codec_okb_sound @C @INST)",
                                    "C04.C04_kmer_decodes_to_symbols @C (codec_okb_sound @C @INST)",
                                    "C04.C04_from_raw_roundtrip @C (codec_okb_sound @C @INST)"]),
                assumptions=["'the word image exported by an owned sequence starts at bit 0 of word 0 however the "
                             "sequence was produced' is an invariant of the repaired code (fix 2decdba) that the model "
                             "takes as its representation (an owned value is its live bits); it is the correspondence "
                             "(intoraw observations after every kind of producer) that ties it to the code"],
                generators=[(c, P.gen_C04) for c in ALL]),
    "C06": dict(theorems=theorems_of("C06"), imports=PROOF_IMPORTS,
                extra_imports=["From BioSeqProps Require Import C06."],
                instances=okb_lift(["C06.C06_insert @C (codec_okb_sound @C @INST)",
                                    "C06.C06_remove @C debug_assertions (codec_okb_sound @C @INST)",
                                    "C06.C06_any_history @C debug_assertions (codec_okb_sound @C @INST)",
                                    "C06.C06_vm_refines_list_machine @C debug_assertions (codec_okb_sound @C @INST)"]),
                assumptions=["aliasing (a clone sharing storage with its source) cannot be exhibited by an immutable "
                             "model: the clause 'clones and slices copied out earlier keep their old content' is "
                             "covered by re-observing every register after every edit in the correspondence only"],
                generators=[(c, P.gen_C06) for c in ALL]),
    "C07": dict(theorems=theorems_of("C07"), imports=PROOF_IMPORTS,
                extra_imports=["From BioSeqProps Require Import C07."],
                instances=inst_C07, generators=[(c, P.gen_C07) for c in ALL]),
    "C08": dict(theorems=theorems_of("C08"), imports=PROOF_IMPORTS,
                extra_imports=["From BioSeqProps Require Import C08."],
                instances=okb_lift(["C08.C08_kmers_enumerated @C debug_assertions (codec_okb_sound @C @INST)",
                                    "C08.C08_kmers_are_windows @C debug_assertions (codec_okb_sound @C @INST)",
                                    "C08.C08_from_slice @C debug_assertions (codec_okb_sound @C @INST)",
                                    "C08.C08_from_text_ok @C debug_assertions (codec_okb_sound @C @INST)",
                                    "C08.C08_back_to_sequence @C (codec_okb_sound @C @INST)"]),
                generators=[(c, P.gen_C08) for c in ALL]),
    "C09": dict(theorems=theorems_of("C09"), imports=PROOF_IMPORTS,
                extra_imports=["From BioSeqProps Require Import C09."],
                instances=inst_C09,
                generators=[(c, P.gen_C09) for c in ALL]),
    "C10": dict(theorems=theorems_of("C10"), imports=PROOF_IMPORTS,
                extra_imports=["From BioSeqProps Require Import C10."],
                instances=okb,
                generators=[(c, P.gen_C10) for c in ALL]),
    "C11": dict(theorems=theorems_of("C11"), imports=PROOF_IMPORTS,
                extra_imports=["From BioSeqProps Require Import C11."],
                instances=okb_lift(["C11.C11_forward_iteration @C (codec_okb_sound @C @INST)", "C11.C11_reverse_iteration @C (codec_okb_sound @C @INST)",
                                    "C11.C11_windows @C (codec_okb_sound @C @INST)", "C11.C11_chunks @C (codec_okb_sound @C @INST)"]),
                generators=[(c, P.gen_C11) for c in ALL]),
    "C12": dict(theorems=theorems_of("C12"), imports=PROOF_IMPORTS,
                extra_imports=["From BioSeqProps Require Import C12."],
                instances=inst_C12, generators=[("iupac", P.gen_C12)]),
    "C13": dict(theorems=theorems_of("C13"), imports=PROOF_IMPORTS,
                extra_imports=["From BioSeqProps Require Import C13."],
                instances=inst_C13, generators=[("dna", P.gen_C13)]),
    "C14": dict(theorems=theorems_of("C14"), imports=PROOF_IMPORTS,
                extra_imports=["From BioSeqProps Require Import C14."], exhaustive=True,
                instances=inst_C14, generators=[("iupac", P.gen_C14)]),
    "C15": dict(theorems=theorems_of("C15"), imports=PROOF_IMPORTS,
                extra_imports=["From BioSeqProps Require Import C15."],
                instances=okb, generators=[("dna", P.gen_C15), ("iupac", P.gen_C15)],
                trusted_extra=["std::collections::HashMap (lookup by Borrow<SeqSlice>; iteration yields each entry "
                               "once in some order: modelled as an arbitrary permutation)"]),
    "C16": dict(theorems=theorems_of("C16"), imports=PROOF_IMPORTS + ["Macro"],
                extra_imports=["From BioSeqProps Require Import C16."],
                instances=inst_C16, extra=[_c16],
                rule="each literal is a separate macro expansion in a generated crate compiled with the real macros in "
                     "dev and release (valid literals: value compared with the Gallina macro model and with runtime "
                     "parsing; invalid literals: one offending character each, must be rejected at their own line)",
                trusted_extra=["rustc/cargo: that an error diagnostic whose span is the literal's line means the "
                               "literal does not compile (the 'is a compile error' half is rustc's behaviour)"]),
    "C17": dict(theorems=theorems_of("C17"), imports=PROOF_IMPORTS,
                extra_imports=(["From BioSeqProps Require Import C17."] if theorems_of("C17") else []) +
                ["From BioSeqGen Require Import Decls."],
                instances=inst_C17, extra=[_c17],
                rule="enum declarations generated as source (2..40 variants, int/bin/hex/byte discriminants, alternatives, "
                     "display characters, optional width), compiled with the real derive in dev and release, dumped over "
                     "all 256 bytes and compared with the Gallina derive model applied to the same declaration; malformed "
                     "declarations must be rejected at their own lines"),
    "C18": dict(theorems=theorems_of("C18"), imports=PROOF_IMPORTS + ["Serde"],
                extra_imports=["From BioSeqProps Require Import C18."],
                instances=okb, generators=[(c, P.gen_C18) for c in ALL],
                assumptions=["PARTIAL: proved at serde's data-model level only; the byte encodings of bincode and "
                             "serde_json and bitvec's Deserialize validation are third-party code, exercised by the "
                             "correspondence (both formats, heads 0 and non-zero, all storage types) but not proved"]),
    "C19": dict(theorems=theorems_of("C19"), imports=PROOF_IMPORTS,
                extra_imports=["From BioSeqProps Require Import C19."],
                instances=inst_C19, generators=[("dna", P.gen_C19_conv)] + [(c, P.gen_C19_trim) for c in ALL]),
    "C20": dict(theorems=theorems_of("C20"), imports=PROOF_IMPORTS,
                extra_imports=["From BioSeqProps Require Import C20."],
                instances=inst_C20, generators=[("mdna", P.gen_C20), ("miupac", P.gen_C20)]),
}
