"""Per-property registry: theorems (in coq/properties/<ID>.v), instance obligations on the
regenerated tables, script generators for the correspondence."""
from . import props as P
from .common import CODECS

ALL = CODECS


def okb(profile):
    return [{"name": "codec_ok(%s)" % c, "expr": "codec_okb %s" % c} for c in CODECS]


REGISTRY = {
    "C01": dict(theorems=[], instances=okb, generators=[(c, P.gen_C01) for c in ALL]),
    "C02": dict(theorems=[], instances=okb, generators=[(c, P.gen_C02) for c in ALL]),
    "C03": dict(theorems=[], instances=okb, generators=[(c, P.gen_C03) for c in ALL]),
    "C04": dict(theorems=[], instances=okb, generators=[(c, P.gen_C04) for c in ALL]),
    "C06": dict(theorems=[], instances=okb, generators=[(c, P.gen_C06) for c in ALL]),
    "C07": dict(theorems=[], instances=okb, generators=[(c, P.gen_C07) for c in ALL]),
    "C08": dict(theorems=[], instances=okb, generators=[(c, P.gen_C08) for c in ALL]),
    "C09": dict(theorems=[], instances=okb, generators=[(c, P.gen_C09) for c in ALL]),
    "C10": dict(theorems=[], instances=okb, generators=[(c, P.gen_C10) for c in ALL]),
    "C11": dict(theorems=[], instances=okb, generators=[(c, P.gen_C11) for c in ALL]),
    "C12": dict(theorems=[], instances=okb, generators=[("iupac", P.gen_C12)]),
    "C13": dict(theorems=[], instances=okb, generators=[("dna", P.gen_C13)]),
    "C14": dict(theorems=[], instances=okb, generators=[("iupac", P.gen_C14)]),
    "C15": dict(theorems=[], instances=okb,
                generators=[("dna", P.gen_C15), ("iupac", P.gen_C15)]),
    "C18": dict(theorems=[], instances=okb, generators=[(c, P.gen_C18) for c in ALL]),
    "C19": dict(theorems=[], instances=okb,
                generators=[("dna", P.gen_C19_conv)] + [(c, P.gen_C19_trim) for c in ALL]),
    "C20": dict(theorems=[], instances=okb, generators=[("mdna", P.gen_C20), ("miupac", P.gen_C20)]),
}
