"""Per-property registry: theorems (in coq/properties/<ID>.v), instance obligations on the
regenerated tables, script generators for the correspondence."""
from . import props as P
from .common import CODECS

ALL = CODECS


from . import decls as D

OKB_MEANING = ("(clause, byte-or-item): 1 BITS outside 1..8 | 2 duplicate items | 3 item fails its own "
               "round trip | 4 try_from_bits accepts a byte inconsistently with unsafe_from_bits/width | "
               "5 try_from_ascii accepts a byte that is not an item or disagrees with unsafe_from_ascii | "
               "6 two items share a display character")


def okb(profile, lift=False):
    return [{"name": "codec_ok(%s)" % c, "expr": "codec_okb %s" % c,
             "witness": "codec_ok_witness %s" % c, "witness_meaning": OKB_MEANING,
             "lift": (["C05.C05_tables_consistent %s @INST" % c] if lift else [])} for c in CODECS]


def write_decls():
    """Translator (b): coq/gen/Decls.v from the enum declarations in the .rs sources."""
    import os
    from .common import GEN, coqc, CheckError
    ds = D.builtin_decls()
    path = os.path.join(GEN, "Decls.v")
    with open(path, "w") as f:
        f.write("(* GENERATED from the #[derive(Codec)] enums of /repo. *)\n"
                "From Coq Require Import List NArith Bool.\nFrom BioSeq Require Import Bits Codec Tables Derive.\n"
                "Import ListNotations.\nOpen Scope N_scope.\n")
        for k, d in ds.items():
            if d is not None:
                f.write("Definition decl_%s : decl := %s.\n" % (k, D.decl_coq(d)))
    p = coqc(path)
    if p.returncode != 0:
        raise CheckError("Decls.v does not compile: " + (p.stdout + p.stderr)[-2000:])
    return ds


def inst_C05(profile):
    obs = okb(profile, lift=True)
    for c, chk, thm in [("dna", "dna_check", "C05_dna_alphabet"), ("iupac", "iupac_check", "C05_iupac_nucleotide_sets"),
                        ("amino", "amino_check", "C05_amino_codons"), ("text", "text_check", "C05_text_literal_bytes"),
                        ("degen", "degen_check", "C05_degenerate_strong_weak")]:
        obs.append({"name": "documented alphabet of %s" % c, "expr": "%s %s" % (chk, c),
                    "lift": ["C05.%s %s @INST" % (thm, c)]})
    for c in ("dna", "iupac", "mdna", "miupac", "degen"):
        obs.append({"name": "complement letters of %s" % c, "expr": "comp_letters_check %s" % c,
                    "lift": ["C05.C05_complement_letters %s @INST" % c]})
    ds = write_decls()
    for c, d in ds.items():
        if d is None:
            continue
        obs.append({"name": "derived codec %s implements its enum declaration (codes, alternatives, display "
                            "characters; every other byte refused)" % c,
                    "expr": "derives_to (width_of_tables width_none width_attr) decl_%s %s" % (c, c)})
    return obs



C05_THEOREMS = ["C05_tables_consistent", "C05_dna_alphabet", "C05_iupac_nucleotide_sets", "C05_amino_codons",
                "C05_text_literal_bytes", "C05_degenerate_strong_weak", "C05_complement_letters"]

REGISTRY = {
    "C05": dict(theorems=C05_THEOREMS, instances=inst_C05, exhaustive=True,
                imports=["Bits", "Codec", "Tables", "Spec", "Derive", "C05Check"],
                extra_imports=["From BioSeqProps Require Import C05.", "From BioSeqGen Require Import Decls."],
                rule="complete enumeration inside the kernel: every obligation is a boolean sweep over all 256 byte "
                     "values (as ASCII input and as bit pattern) of one codec's regenerated tables, for the dev and "
                     "the release build; evaluations = table entries swept",
                notes=["text::Dna::try_from_bits accepts every byte: documented ('a literal interpretation of bytes')"]),
    "C01": dict(theorems=[], instances=okb, generators=[(c, P.gen_C01) for c in ALL]),
    "C02": dict(theorems=[], instances=okb, generators=[(c, P.gen_C02) for c in ALL]),
    "C03": dict(theorems=[], instances=okb, generators=[(c, P.gen_C03) for c in ALL]),
    "C04": dict(theorems=[], instances=okb, generators=[(c, P.gen_C04) for c in ALL]),
    "C06": dict(theorems=[], instances=okb, generators=[(c, P.gen_C06) for c in ALL]),
    "C07": dict(theorems=[], instances=okb, generators=[(c, P.gen_C07) for c in ALL]),
    "C08": dict(theorems=[], instances=okb, generators=[(c, P.gen_C08) for c in ALL]),
    "C09": dict(theorems=[], instances=okb, generators=[(c, P.gen_C09) for c in ALL]),
    "C10": dict(theorems=[], instances=okb, generators=[(c, P.gen_C10) for c in ALL]),
    "C11": dict(theorems=[], instances=okb, generators=[(c, P.gen_C11) for c in ALL]),
    "C12": dict(theorems=[], instances=okb, generators=[("iupac", P.gen_C12)]),
    "C13": dict(theorems=[], instances=okb, generators=[("dna", P.gen_C13)]),
    "C14": dict(theorems=[], instances=okb, generators=[("iupac", P.gen_C14)]),
    "C15": dict(theorems=[], instances=okb,
                generators=[("dna", P.gen_C15), ("iupac", P.gen_C15)]),
    "C18": dict(theorems=[], instances=okb, generators=[(c, P.gen_C18) for c in ALL]),
    "C19": dict(theorems=[], instances=okb,
                generators=[("dna", P.gen_C19_conv)] + [(c, P.gen_C19_trim) for c in ALL]),
    "C20": dict(theorems=[], instances=okb, generators=[("mdna", P.gen_C20), ("miupac", P.gen_C20)]),
}
