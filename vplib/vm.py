"""Sequence-VM scripts: one Python representation, two serialisers (harness text, Gallina),
the Rust runner, the Coq case-file writer and the mismatch reader."""
import os
import re
import concurrent.futures as cf

from .common import (GEN, BUILD, CheckError, build_harness, harness_bin, sh, coqc, log)

SENTINEL_SHORT = 4294967295


class SD:
    """slice descriptor: register + nested range forms (form, a, b)"""
    __slots__ = ("reg", "ranges")

    def __init__(self, reg, ranges=()):
        self.reg = reg
        self.ranges = [tuple(r) for r in ranges]

    def text(self):
        out = [str(self.reg), str(len(self.ranges))]
        for f, a, b in self.ranges:
            out += [str(f), str(a), str(b)]
        return " ".join(out)

    def coq(self):
        return "(SD %d [%s])" % (self.reg, "; ".join("(%d, %d, %d)" % r for r in self.ranges))

    def __repr__(self):
        names = {0: "{a}..{b}", 1: "{a}..={b}", 2: "..{b}", 3: "..={b}", 4: "{a}..", 5: "..", 6: "[{a}]"}
        return "r%d" % self.reg + "".join("[" + names[f].format(a=a, b=b) + "]" for f, a, b in self.ranges)


# op name -> (Coq constructor, argument kinds)   n number | l list | s slice descriptor
OPS = {
    "parse": ("OParse", "nl"), "trim": ("OTrim", "l"), "collect": ("OCollect", "nl"),
    "clone": ("OClone", "n"), "toowned": ("OToOwned", "s"), "fromslice": ("OFromSlice", "s"),
    "torev": ("OToRev", "s"), "tocomp": ("OToComp", "s"), "torevcomp": ("OToRevComp", "s"),
    "tomask": ("OToMask", "n"), "tounmask": ("OToUnmask", "n"),
    "and": ("OAnd", "ss"), "or": ("OOr", "ss"), "bitand": ("OBitAnd", "nn"), "bitor": ("OBitOr", "nn"),
    "fromraw": ("OFromRaw", "nl"), "serde": ("OSerde", "nn"),
    "push": ("OPush", "nn"), "extend": ("OExtend", "nl"), "append": ("OAppend", "ns"),
    "prepend": ("OPrepend", "ns"), "insert": ("OInsert", "nns"), "remove": ("ORemove", "nnnn"),
    "truncate": ("OTruncate", "nn"), "clear": ("OClear", "n"), "rev": ("ORev", "n"),
    "comp": ("OComp", "n"), "revcomp": ("ORevComp", "n"), "mask": ("OMask", "n"), "unmask": ("OUnmask", "n"),
    "len": ("OLen", "s"), "display": ("ODisplay", "s"), "codes": ("OCodes", "s"),
    "reviter": ("ORevIter", "s"), "nth": ("ONth", "sn"), "get": ("OGet", "sn"),
    "windows": ("OWindows", "sn"), "chunks": ("OChunks", "sn"), "winvec": ("OWinVec", "sn"),
    "chain": ("OChain", "ss"), "eq": ("OEq", "nss"), "eqstr": ("OEqStr", "sl"), "cmp": ("OCmp", "nn"),
    "tousize": ("OToUsize", "s"), "tou8": ("OToU8", "s"), "intousize": ("OIntoUsize", "n"),
    "intoraw": ("OIntoRaw", "n"), "hasheq": ("OHashEq", "ss"), "mapget": ("OMapGet", "ns"),
    "contains": ("OContains", "nss"), "conv": ("OConv", "ns"), "all": ("OAll", ""),
    "frombv": ("OFromBv", "nl"), "arr": ("OArr", "ls"), "xlate": ("OXlate", "ns"), "xlatei": ("OXlateI", "s"),
    "xcodon": ("OXCodon", "n"), "ctnew": ("OCtNew", "l"), "ctq": ("OCtQ", "s"), "ctr": ("OCtR", "n"),
    "kfrom": ("KFrom", "nns"), "kunsafe": ("KUnsafe", "nns"), "kstr": ("KStr", "nnl"),
    "kint": ("KInt", "nnnn"), "kfromseq": ("KFromSeq", "nnn"), "kmers": ("KMers", "nns"),
    "kmin": ("KMin", "nns"), "kobs": ("KObs", ""), "krotl": ("KRotl", "n"), "krotr": ("KRotr", "n"),
    "kpushl": ("KPushl", "n"), "kpushr": ("KPushr", "n"), "keq": ("KEq", "ns"),
    "khasheq": ("KHashEq", "s"), "kcmp": ("KCmp", "nn"), "kserde": ("KSerde", "n"),
    "kderef": ("KDeref", ""), "kasref": ("KAsRef", ""), "ktoseq": ("KToSeq", ""),
    "krev": ("KRev", ""), "ktorev": ("KToRev", ""), "keqseq": ("KEqSeq", "n"),
    "keqstr": ("KEqStr", "l"), "kusize": ("KUsize", ""), "kview": ("KView", "n"), "kcomp": ("KComp", ""),
    "ktocomp": ("KToComp", ""), "krevcomp": ("KRevComp", ""), "ktorevcomp": ("KToRevComp", ""),
}


def op_text(op):
    name, args = op[0], op[1:]
    kinds = OPS[name][1]
    assert len(kinds) == len(args), op
    out = [name]
    for k, a in zip(kinds, args):
        if k == "n":
            out.append(str(int(a)))
        elif k == "l":
            out.append(str(len(a)))
            out += [str(int(x)) for x in a]
        else:
            out.append(a.text())
    return " ".join(out)


def op_coq(op):
    name, args = op[0], op[1:]
    ctor, kinds = OPS[name]
    out = [ctor]
    for k, a in zip(kinds, args):
        if k == "n":
            out.append(str(int(a)))
        elif k == "l":
            out.append("[" + "; ".join(str(int(x)) for x in a) + "]")
        else:
            out.append(a.coq())
    return "(" + " ".join(out) + ")" if len(out) > 1 else ctor


def op_repr(op):
    return op[0] + "(" + ", ".join(repr(a) for a in op[1:]) + ")"


def script_text(script):
    return " ; ".join(op_text(o) for o in script)


def script_coq(script):
    return "[" + "; ".join(op_coq(o) for o in script) + "]"


def parse_output(line):
    """-> (list of observations (lists of ints), panicked)"""
    obs = []
    panicked = False
    line = line.strip()
    if not line:
        return obs, panicked
    for part in line.split(" | "):
        part = part.strip()
        assert part.startswith("o"), repr(part)
        body = part[1:].strip()
        if body == "P":
            panicked = True
            continue
        if body == "S":
            obs.append([SENTINEL_SHORT])
            continue
        obs.append([int(x) for x in body.split()] if body else [])
    return obs, panicked


SENTINEL_CRASH = 4294967294


def run_rust(codec, profile, scripts, tag):
    """Run the scripts through the real implementation. Returns list of (obs, panicked).
    If the process dies (signal: the implementation hit undefined behaviour), the script it died on
    gets the observation [SENTINEL_CRASH] and execution resumes with the next script."""
    ok, msg = build_harness(profile)
    if not ok:
        raise CheckError("harness does not build against /repo (%s): %s" % (profile, msg))
    outs = []
    start = 0
    crashes = 0
    while start < len(scripts):
        path = os.path.join(BUILD, "scripts_%s.txt" % tag)
        with open(path, "w") as f:
            for s in scripts[start:]:
                f.write(script_text(s) + "\n")
        p = sh([harness_bin(profile), "vm", codec, path], timeout=900, check=False)
        lines = p.stdout.split("\n")
        if lines and lines[-1] == "":
            lines.pop()
        if p.returncode == 0 and len(lines) == len(scripts) - start:
            outs += [parse_output(l) for l in lines]
            break
        if p.returncode >= 0 and p.returncode != 0:
            raise CheckError("harness vm failed (rc=%s, %d/%d lines): %s" % (
                p.returncode, len(lines), len(scripts) - start, p.stderr[-3000:]))
        # killed by a signal: lines[0..k) are complete, script k crashed the process
        good = [l for l in lines if l.startswith("o") or l == ""]
        k = len(good)
        outs += [parse_output(l) for l in good]
        outs.append(([[SENTINEL_CRASH, -p.returncode]], True))
        crashes += 1
        start += k + 1
        if crashes >= 40:
            outs += [([[SENTINEL_CRASH, 0]], True)] * (len(scripts) - start)
            break
    if len(outs) != len(scripts):
        raise CheckError("harness vm: %d outputs for %d scripts" % (len(outs), len(scripts)))
    return outs


def panic_messages(codec, profile, script, tag):
    """run one script with the panic hook enabled and return what the implementation / harness said"""
    import subprocess
    ok, _ = build_harness(profile)
    if not ok:
        return []
    path = os.path.join(BUILD, "scripts_%s_msg.txt" % tag)
    with open(path, "w") as f:
        f.write(script_text(script) + "\n")
    try:
        p = subprocess.run([harness_bin(profile), "vm", codec, path], capture_output=True, text=True, timeout=120,
                           env=dict(os.environ, HARNESS_PANIC_MSG="1", RUST_BACKTRACE="0"))
    except Exception:
        return []
    msgs = []
    lines = p.stderr.splitlines()
    for i, l in enumerate(lines):
        if "panicked at" in l:
            msgs.append((l + " " + (lines[i + 1] if i + 1 < len(lines) else "")).strip()[:400])
    return msgs[:5]


def obs_coq(out):
    obs, panicked = out
    return "([" + "; ".join("[" + "; ".join(str(x) for x in o) + "]" for o in obs) + "], " + \
        ("true" if panicked else "false") + ")"


HEADER = """From Coq Require Import List NArith Bool.
From BioSeq Require Import Bits Codec Tables SeqModel KmerModel VM Refine.
From BioSeqGen Require Import Real_{profile}.
Import ListNotations.
Open Scope N_scope.
Definition conv_i (x : N) : option N := option_map snd (find (fun p => N.eqb (fst p) x) dna_to_iupac).
Definition conv_t (x : N) : option N := option_map snd (find (fun p => N.eqb (fst p) x) dna_to_text).
Definition vmrun := VM.run {codec} debug_assertions conv_i conv_t iupac text amino std_try_to_amino std_try_to_codon.
Definition vmmis := VM.mismatches {codec} debug_assertions conv_i conv_t iupac text amino std_try_to_amino std_try_to_codon.
"""


def write_cases(path, codec, profile, scripts, outs, dump_indices=None):
    with open(path, "w") as f:
        f.write(HEADER.format(profile=profile, codec=codec))
        f.write("Definition cases : list (list op * (list (list N) * bool)) := [\n")
        f.write(";\n".join("(%s, %s)" % (script_coq(s), obs_coq(o)) for s, o in zip(scripts, outs)))
        f.write("].\n")
        f.write("Eval vm_compute in (vmmis 0 cases).\n")
        f.write("Eval vm_compute in (Refine.lm_scope %s conv_i conv_t iupac text amino std_try_to_amino "
                "std_try_to_codon cases).\n" % codec)
        for i in dump_indices or []:
            f.write("Eval vm_compute in (vmrun %s).\n" % script_coq(scripts[i]))


_eval_re = re.compile(r"=\s*(.*?)\s*:\s*(list N|list \(list N\) \* bool)", re.S)


def _parse_nlist(txt):
    return [int(x) for x in re.findall(r"\d+", txt)]


def parse_model_output(txt):
    """parse `([[1; 2]; [3]], false)` as printed by Coq"""
    txt = txt.strip()
    m = re.match(r"\(\s*(\[.*\])\s*,\s*(true|false)\s*\)\s*$", txt, re.S)
    if not m:
        return None
    body = m.group(1).strip()
    inner = body[1:-1].strip()
    obs = []
    if inner:
        for part in re.findall(r"\[([^\[\]]*)\]", inner):
            obs.append(_parse_nlist(part))
    return obs, m.group(2) == "true"


def _cleanup(path):
    for ext in (".vo", ".vok", ".vos", ".glob"):
        try:
            os.remove(path[:-2] + ext)
        except OSError:
            pass
    aux = os.path.join(os.path.dirname(path), "." + os.path.basename(path)[:-2] + ".aux")
    try:
        os.remove(aux)
    except OSError:
        pass


def coq_mismatches_multi(groups, per_shard=60):
    """groups: dicts with tag, codec, profile, scripts, outs.  Evaluates the Gallina VM on every
    script inside coqc (all shards of all groups in one pool of 16 processes) and returns, per
    group, (indices where model and implementation disagree, {index: model output})."""
    jobs = []
    for gi, g in enumerate(groups):
        n = len(g["scripts"])
        if n == 0:
            continue
        # shard by total op count so that long scripts spread out
        shards = max(1, min(64, (n + per_shard - 1) // per_shard))
        for k in range(shards):
            lo, hi = k * n // shards, (k + 1) * n // shards
            if hi > lo:
                jobs.append((gi, k, lo, hi))

    def one(job):
        gi, k, lo, hi = job
        g = groups[gi]
        path = os.path.join(GEN, "cases_%s_%d.v" % (g["tag"], k))
        write_cases(path, g["codec"], g["profile"], g["scripts"][lo:hi], g["outs"][lo:hi])
        p = coqc(path)
        if p.returncode != 0:
            raise CheckError("coqc failed on %s:\n%s" % (path, (p.stdout + p.stderr)[-3000:]))
        m = _eval_re.search(p.stdout)
        if not m:
            raise CheckError("cannot read coqc output for %s: %s" % (path, p.stdout[-2000:]))
        mis = [lo + i for i in _parse_nlist(m.group(1))]
        allm = _eval_re.findall(p.stdout)
        sc = _parse_nlist(allm[1][0]) if len(allm) > 1 else [0, 0]
        scope = (sc[0], sc[1], hi - lo)
        model = {}
        if mis:
            write_cases(path, g["codec"], g["profile"], g["scripts"][lo:hi], g["outs"][lo:hi],
                        dump_indices=[i - lo for i in mis[:4]])
            p = coqc(path)
            found = _eval_re.findall(p.stdout)
            for i, (body, _) in zip(mis[:4], found[2:]):
                model[i] = parse_model_output(body)
        _cleanup(path)
        return gi, mis, model, scope

    res = [([], {}) for _ in groups]
    for g in groups:
        g["scope"] = [0, 0, 0]
    with cf.ThreadPoolExecutor(max_workers=16) as ex:
        for gi, mis, model, scope in ex.map(one, jobs):
            res[gi][0].extend(mis)
            res[gi][1].update(model)
            for j in range(3):
                groups[gi]["scope"][j] += scope[j]
    return [(sorted(m), d) for m, d in res]
