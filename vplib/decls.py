"""Translator (b): parse `#[derive(.. Codec ..)] enum` declarations from Rust source into a small
AST that is printed as Gallina (coq/gen/Decls.v) and fed to the Derive model."""
import os
import re

from .common import REPO


def _int_lit(txt):
    """-> (kind, value): kind 'int' | 'byte' | 'other'"""
    t = txt.strip().replace("_", "")
    m = re.fullmatch(r"b'(\\?.)'", txt.strip())
    if m:
        ch = m.group(1)
        esc = {"\\n": 10, "\\t": 9, "\\r": 13, "\\0": 0, "\\\\": 92, "\\'": 39}
        return "byte", esc.get(ch, ord(ch[-1]))
    for suf in ("u8", "usize", "u16", "u32", "u64", "i32", "isize"):
        if t.endswith(suf):
            t = t[:-len(suf)]
    try:
        if t.startswith(("0b", "0B")):
            return "int", int(t[2:], 2)
        if t.startswith(("0x", "0X")):
            return "int", int(t[2:], 16)
        if t.startswith(("0o", "0O")):
            return "int", int(t[2:], 8)
        if re.fullmatch(r"\d+", t):
            return "int", int(t)
    except ValueError:
        pass
    return "other", None


def strip_comments(src):
    src = re.sub(r"/\*.*?\*/", "", src, flags=re.S)
    src = re.sub(r"//[^\n]*", "", src)
    return src


def parse_enums(src):
    """all enums deriving Codec in a source text -> list of decl dicts"""
    src = strip_comments(src)
    out = []
    for m in re.finditer(r"((?:#\[[^\]]*\]\s*)+)(?:pub(?:\([^)]*\))?\s+)?enum\s+(\w+)\s*\{", src):
        attrs, name = m.group(1), m.group(2)
        if not re.search(r"derive\s*\([^)]*\bCodec\b", attrs):
            continue
        # body up to the matching brace
        i = m.end()
        depth = 1
        while i < len(src) and depth:
            if src[i] == "{":
                depth += 1
            elif src[i] == "}":
                depth -= 1
            i += 1
        body = src[m.end():i - 1]
        bits = None
        mb = re.search(r"#\[\s*bits\s*\(\s*(\d+)\s*\)\s*\]", attrs)
        if mb:
            bits = int(mb.group(1))
        variants = []
        ok = True
        # split variants on top-level commas
        parts, cur, d = [], "", 0
        for ch in body:
            if ch in "([{":
                d += 1
            elif ch in ")]}":
                d -= 1
            if ch == "," and d == 0:
                parts.append(cur)
                cur = ""
            else:
                cur += ch
        if cur.strip():
            parts.append(cur)
        for part in parts:
            part = part.strip()
            if not part:
                continue
            vattrs = re.findall(r"#\[\s*(\w+)\s*\((.*?)\)\s*\]", part, flags=re.S)
            rest = re.sub(r"#\[.*?\]\s*", "", part, flags=re.S).strip()
            mv = re.fullmatch(r"(\w+)\s*(?:=\s*(.+))?", rest, flags=re.S)
            if not mv:
                ok = False
                break
            vname, disc = mv.group(1), mv.group(2)
            v = {"name": vname, "disc": None, "disc_kind": "missing", "alts": [], "display": None}
            if disc is not None:
                k, val = _int_lit(disc)
                v["disc_kind"], v["disc"] = k, val
            for an, av in vattrs:
                if an == "display":
                    mc = re.fullmatch(r"\s*'(\\?.)'\s*", av)
                    if mc:
                        c = mc.group(1)
                        v["display"] = {"\\\\": 92, "\\'": 39, "\\n": 10, "\\t": 9}.get(c, ord(c[-1]))
                    else:
                        ok = False
                elif an == "alt":
                    for a in av.split(","):
                        if a.strip():
                            k, val = _int_lit(a)
                            if k == "other":
                                ok = False
                            else:
                                v["alts"].append(val)
            variants.append(v)
        out.append({"name": name, "bits": bits, "variants": variants, "parsed_ok": ok})
    return out


BUILTIN_ENUMS = {
    "iupac": ("bio-seq/src/codec/iupac.rs", "Iupac"),
    "amino": ("bio-seq/src/codec/amino.rs", "Amino"),
    "mdna": ("bio-seq/src/codec/masked/dna.rs", "Dna"),
    "miupac": ("bio-seq/src/codec/masked/iupac.rs", "Iupac"),
}


def builtin_decls():
    """the in-tree derived codecs -> {codec: decl or None (not parseable: skipped, never an alarm)}"""
    out = {}
    for codec, (rel, ename) in BUILTIN_ENUMS.items():
        try:
            src = open(os.path.join(REPO, rel)).read()
            ds = [d for d in parse_enums(src) if d["name"] == ename and d["parsed_ok"]]
            out[codec] = ds[0] if ds else None
        except OSError:
            out[codec] = None
    return out


def decl_coq(d):
    """Gallina term of type Derive.decl"""
    def lit(v):
        if v["disc_kind"] == "int":
            return "LInt %d" % v["disc"]
        if v["disc_kind"] == "byte":
            return "LByte %d" % v["disc"]
        if v["disc_kind"] == "missing":
            return "LMissing"
        return "LOther"
    vs = []
    for v in d["variants"]:
        vs.append("{| v_first := %d; v_disc := %s; v_alts := [%s]; v_display := %s |}" % (
            ord(v["name"][0]), lit(v), "; ".join(str(a) for a in v["alts"]),
            "Some %d" % v["display"] if v["display"] is not None else "None"))
    return "{| d_bits := %s; d_variants := [%s] |}" % (
        "Some %d" % d["bits"] if d["bits"] is not None else "None", ";\n    ".join(vs))
