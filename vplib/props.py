"""Per-property script generators for the sequence-VM correspondence."""
import itertools
import random

from .gen import (pick_K, KGRID, WBITS, ORD_CODECS, COMP_CODECS, MASK_CODECS, CodecInfo, Script,
                  boundary_lengths, pick_len, rand_codes, codes_to_bytes, rand_range, rand_sd,
                  window_sd)
from .vm import SD


def scale(tier, quick, thorough):
    return thorough if tier == "thorough" else quick



def long_scripts(rng, ci, tier, kinds):
    """A few LONG sequences (around and beyond 4096 bits: a blocked, chunked or buffered implementation
    must keep the symbol framing across its blocks), checked through linear observations only (equality
    with the expected symbols built another way, hash partition, length)."""
    out = []
    q = 4096 // ci.bits
    lens = [q, q + 1, 2 * q + 1] if tier != "thorough" else [q - 1, q, q + 1, 2 * q - 1, 2 * q + 1, 3 * q + 2]
    comp = ci.tab.get("comp") or []
    for n in lens:
        x = rand_codes(rng, ci, n)
        s = Script(ci)
        pre = rand_codes(rng, ci, rng.choice([1, 3, ci.per_word - 1, ci.per_word + 1]))
        s.add("collect", 0, pre + x + pre); s.regs.append(None)
        w = SD(0, [(0, len(pre), len(pre) + n)])                     # x as an unaligned window
        s.add("collect", 1, x); s.regs.append(None); a = 1           # x collected
        for kind in kinds:
            if kind == "eq":
                chars = codes_to_bytes(ci, x)
                if all(c is not None and ci.code_of(c) == k for c, k in zip(chars, x)):
                    s.add("parse", rng.randint(0, 5), chars); s.regs.append(None)
                    s.add("eq", 2, SD(a), SD(len(s.regs) - 1))
                s.add("eq", 3, SD(a), w); s.add("eq", 0, w, SD(a, [(5, 0, 0)]))
                s.add("hasheq", SD(a), w)
                y = list(x); y[-1] = rng.choice([c for c in ci.items if c != y[-1]] or [y[-1]])
                s.add("collect", 0, y); s.regs.append(None)
                s.add("eq", 2, SD(a), SD(len(s.regs) - 1)); s.add("hasheq", SD(a), SD(len(s.regs) - 1))
                s.add("len", w)
            elif kind == "rev":
                s.add("torev", w); s.regs.append(None); r = len(s.regs) - 1
                s.add("collect", 0, x[::-1]); s.regs.append(None)
                s.add("eq", 2, SD(r), SD(len(s.regs) - 1))
                s.add("clone", a); s.regs.append(None); c = len(s.regs) - 1
                s.add("rev", c); s.add("eq", 2, SD(c), SD(r))
            elif kind == "comp" and all(comp[c] is not None for c in set(x)):
                cx = [comp[c] for c in x]
                s.add("tocomp", w); s.regs.append(None); r = len(s.regs) - 1
                s.add("collect", 0, cx); s.regs.append(None)
                s.add("eq", 2, SD(r), SD(len(s.regs) - 1))
                s.add("torevcomp", SD(a)); s.regs.append(None); r2 = len(s.regs) - 1
                s.add("collect", 0, cx[::-1]); s.regs.append(None)
                s.add("eq", 2, SD(r2), SD(len(s.regs) - 1))
            elif kind == "edit":
                cut = rng.randint(1, n - 1)
                ins = rand_codes(rng, ci, rng.choice([1, ci.per_word, ci.per_word + 1]))
                s.add("clone", a); s.regs.append(None); c = len(s.regs) - 1
                s.add("collect", 0, ins); s.regs.append(None); i = len(s.regs) - 1
                s.add("insert", c, cut, SD(i))
                s.add("collect", 0, x[:cut] + ins + x[cut:]); s.regs.append(None)
                s.add("eq", 2, SD(c), SD(len(s.regs) - 1))
                s.add("remove", c, 0, cut, cut + len(ins)); s.add("eq", 2, SD(c), SD(a))
                s.add("truncate", c, q - 1); s.add("prepend", c, SD(i))
                s.add("collect", 0, ins + x[:q - 1]); s.regs.append(None)
                s.add("eq", 2, SD(c), SD(len(s.regs) - 1))
            elif kind == "serde":
                for f in (0, 1):
                    s.add("serde", f, a); s.regs.append(None)
                    s.add("eq", 2, SD(a), SD(len(s.regs) - 1)); s.add("hasheq", SD(a), SD(len(s.regs) - 1))
            elif kind == "setops":
                y = rand_codes(rng, ci, n)
                s.add("collect", 0, pre[:1] + y); s.regs.append(None); yr = len(s.regs) - 1
                yw = SD(yr, [(4, 1, 0)])
                s.add("and", w, yw); s.regs.append(None); r = len(s.regs) - 1
                s.add("collect", 0, [p & q_ for p, q_ in zip(x, y)]); s.regs.append(None)
                s.add("eq", 2, SD(r), SD(len(s.regs) - 1))
                s.add("or", w, yw); s.regs.append(None); r = len(s.regs) - 1
                s.add("collect", 0, [p | q_ for p, q_ in zip(x, y)]); s.regs.append(None)
                s.add("eq", 2, SD(r), SD(len(s.regs) - 1))
                s.add("contains", 0, w, yw); s.add("contains", 0, w, w)
        out.append(s.ops)
    return out

# ---------------------------------------------------------------- C01
def gen_C01(rng, ci, tier):
    out = []
    n_rand = scale(tier, 40, 700)
    maxlen = scale(tier, 200, 400)
    valid = [b for b in ci.valid_bytes]
    # bounded exhaustive: all strings of length <= 3 over {valid1, valid2, bad} through every entry point
    alpha = valid[:2] + [ci.invalid_bytes[0] if 0 not in ci.valid_bytes else 1]
    lowers = [b for b in range(97, 123) if b in ci.invalid_bytes]
    if lowers:
        alpha[-1] = lowers[0]
    for n in range(0, 4):
        for tup in itertools.product(alpha, repeat=n):
            s = Script(ci)
            for e in range(6):
                s.add("parse", e, list(tup))
                s.add("len", SD(e))
                s.add("display", SD(e))
            out.append(s.ops)
    # valid stream: parse, observe, display -> parse -> display is the identity
    for _ in range(n_rand):
        s = Script(ci)
        n = pick_len(rng, ci, maxlen)
        codes = rand_codes(rng, ci, n)
        # random valid bytes (may include alternative spellings such as C/G for the 1-bit codec)
        if rng.random() < 0.5:
            b = [rng.choice(valid) for _ in range(n)]
        else:
            b = codes_to_bytes(ci, codes)
        e = rng.randint(0, 5)
        s.add("parse", e, b)
        s.add("len", SD(0))
        s.add("codes", SD(0))
        s.add("display", SD(0))
        # the displayed text, parsed again through another entry point
        disp = [ci.ascii_of(ci.code_of(x)) for x in b]
        s.add("parse", rng.randint(0, 5), disp)
        s.add("eq", 2, SD(0), SD(1))
        s.add("display", SD(1))
        s.add("eqstr", SD(0), disp)
        if n:
            i = rng.randrange(n)
            s.add("nth", SD(0), i)
        out.append(s.ops)
    # malformed stream: one or more bad bytes at first / middle / last position
    for _ in range(n_rand):
        s = Script(ci)
        n = max(1, pick_len(rng, ci, maxlen))
        b = [rng.choice(valid) for _ in range(n)]
        pos = rng.choice([0, n - 1, n // 2, rng.randrange(n)])
        kind = rng.random()
        if kind < 0.3:
            bad = rng.choice(ci.invalid_bytes)
        elif kind < 0.5:
            bad = rng.choice([x for x in ci.invalid_bytes if x >= 128] or ci.invalid_bytes)
        elif kind < 0.7 and lowers:
            bad = rng.choice(lowers)
        else:
            bad = rng.choice([x for x in ci.invalid_bytes if x < 128] or ci.invalid_bytes)
        b[pos] = bad
        if rng.random() < 0.4:
            p2 = rng.randrange(n)
            b[p2] = rng.choice(ci.invalid_bytes)
        e = rng.randint(0, 5)
        s.add("parse", e, b)
        s.add("len", SD(0))
        out.append(s.ops)
    # characters above U+00FF whose low byte is a symbol character (must not be accepted as it)
    for e in range(4):
        s = Script(ci)
        for v in valid[:4]:
            cp = 0x100 + v
            enc = list(chr(cp).encode("utf-8"))
            pre = [rng.choice(valid) for _ in range(2)]
            s.add("parse", e, enc + pre)
            s.add("len", SD(len(s.regs))); s.regs.append(None)
            s.add("parse", e, pre + enc)
            s.regs.append(None)
        out.append(s.ops)
    # multi-byte UTF-8 through the &str forms
    for e in range(4):
        s = Script(ci)
        pre = [rng.choice(valid) for _ in range(3)]
        s.add("parse", e, pre + [0xC3, 0xA9] + pre)
        s.add("parse", e, [0xE2, 0x82, 0xAC])
        s.add("parse", e, pre + [0xF0, 0x9F, 0x98, 0x80])
        out.append(s.ops)
    out += long_scripts(rng, ci, tier, ['eq'])
    return out


# ---------------------------------------------------------------- C03
def gen_C03(rng, ci, tier):
    out = []
    # bounded exhaustive: every (a,b) of every form on lengths <= 6 (in and out of bounds by <= 2)
    for n in range(0, scale(tier, 6, 9)):
        codes = [ci.items[i % len(ci.items)] for i in range(n)]
        forms = []
        for a in range(0, n + 3):
            for b in range(0, n + 3):
                forms.append((0, a, b))
                forms.append((1, a, b))
            forms += [(2, 0, a), (3, 0, a), (4, a, 0), (6, a, 0)]
        forms.append((5, 0, 0))
        for f in forms:
            s = Script(ci)
            s.add("collect", 0, codes)
            s.add("codes", SD(0, [f]))
            out.append(s.ops)
    for _ in range(scale(tier, 120, 2500)):
        s = Script(ci)
        n = pick_len(rng, ci, scale(tier, 200, 400))
        codes = rand_codes(rng, ci, n)
        r = s.new_from_codes(rng, codes, how=rng.choice(["parse", "collect"]))
        for _ in range(3):
            d, (st, ln) = rand_sd(rng, r, n, ci, maxdepth=3, mindepth=1)
            s.add("codes", d)
            s.add("len", d)
            if ln:
                i = rng.randrange(ln)
                s.add("nth", d, i)
                s.add("get", d, i)
            s.add("get", d, ln + rng.choice([0, 1, 5]))
            if rng.random() < 0.3:
                s.add("display", d)
        # out of bounds: a nesting whose last range is just past the end, or nth past the end
        d, (st, ln) = rand_sd(rng, r, n, ci, maxdepth=2)
        if rng.random() < 0.6:
            rg, _ = rand_range(rng, ln, ci, oob=True)
            s.add("codes", SD(d.reg, d.ranges + [rg]))
        else:
            s.add("nth", d, ln + rng.choice([0, 1]))
        out.append(s.ops)
    # ... and with a k-mer as the receiver (Deref to a slice of K symbols): get past K must be None
    for K in KGRID[ci.name][0]:
        for _ in range(scale(tier, 2, 20)):
            s = Script(ci)
            d = s.embed(rng, rand_codes(rng, ci, K))
            s.add("kfrom", K, 0, d)
            s.add("kview", K + ci.per_word + 2)
            out.append(s.ops)
    # the same accessors with the OWNED sequence as the method receiver: freshly built, copied out of a
    # window, truncated (stale symbols stay behind the end in the last word) and cleared
    for _ in range(scale(tier, 80, 1600)):
        s = Script(ci)
        n = pick_len(rng, ci, scale(tier, 150, 300))
        codes = rand_codes(rng, ci, n)
        r = s.new_from_codes(rng, codes, how=rng.choice(["parse", "collect"]))
        kind = rng.choice(["fresh", "window", "truncated", "truncated", "cleared"])
        o, cur = r, list(codes)
        if kind == "window" and n:
            a = rng.randint(0, n); b = rng.randint(a, n)
            s.add("toowned", window_sd(r, a, b, rng)); s.regs.append(codes[a:b])
            o, cur = len(s.regs) - 1, codes[a:b]
        elif kind == "truncated":
            m = rng.randint(0, n)
            s.add("truncate", r, m); s.regs[r] = codes[:m]; cur = codes[:m]
        elif kind == "cleared":
            s.add("clear", r); s.regs[r] = []; cur = []
        ln = len(cur)
        s.add("len", SD(o))
        s.add("codes", SD(o))
        idx = {0, ln, ln + 1, ln + ci.per_word - 1, ln + ci.per_word, rng.randint(ln, ln + 2 * ci.per_word)}
        if ln:
            idx.update({ln - 1, rng.randrange(ln)})
        for i in sorted(idx):
            s.add("get", SD(o), i)
        if ln:
            s.add("nth", SD(o), rng.randrange(ln))
            s.add("nth", SD(o), ln - 1)
        s.add("reviter", SD(o))
        if ln <= 80:
            s.add("windows", SD(o), rng.randint(1, ln + 1))
            s.add("chunks", SD(o), rng.randint(1, ln + 1))
        if rng.random() < 0.4:
            s.add("nth", SD(o), ln + rng.choice([0, 1, ci.per_word - 1]))
        out.append(s.ops)
    return out


# ---------------------------------------------------------------- C11
def gen_C11(rng, ci, tier):
    out = []
    for n in range(0, scale(tier, 9, 12)):
        codes = [ci.items[(i * 7 + 1) % len(ci.items)] for i in range(n)]
        s = Script(ci)
        d = s.embed(rng, codes)
        s.add("codes", d)
        s.add("reviter", d)
        for w in range(1, n + 3):
            s.add("windows", d, w)
            s.add("chunks", d, w)
        s.add("winvec", d, max(1, n // 2))
        out.append(s.ops)
    for _ in range(scale(tier, 60, 1200)):
        s = Script(ci)
        n = pick_len(rng, ci, scale(tier, 120, 300))
        codes = rand_codes(rng, ci, n)
        d = s.embed(rng, codes) if rng.random() < 0.7 else SD(s.new_from_codes(rng, codes))
        s.add("codes", d)
        s.add("reviter", d)
        ws = {1, 2, 3, max(1, n - 1), max(1, n), n + 1, n + 2, max(1, n // 2), max(1, n // 3)}
        ws.update(rng.randint(1, n + 2) for _ in range(3))
        for w in sorted(ws):
            if n * (n // w + 1) > 4000 and w < 3:
                continue
            s.add(rng.choice(["windows", "chunks"]) if n > 60 else "windows", d, w)
            if n <= 60:
                s.add("chunks", d, w)
        m = pick_len(rng, ci, 40)
        d2 = s.embed(rng, rand_codes(rng, ci, m))
        s.add("chain", d, d2)
        s.add("chain", d2, d)
        if n <= 40:
            s.add("winvec", d, rng.randint(1, n + 1))
        out.append(s.ops)
    return out


# ---------------------------------------------------------------- C07
def gen_C07(rng, ci, tier):
    out = []
    has_comp = ci.name in COMP_CODECS
    lens = boundary_lengths(ci.bits)
    for it in range(scale(tier, 80, 1500)):
        s = Script(ci)
        n = rng.choice(lens) if it < len(lens) * 2 else pick_len(rng, ci, scale(tier, 200, 400))
        codes = rand_codes(rng, ci, n)
        d = s.embed(rng, codes)
        base = d.reg
        # copying forms on the slice at an offset, on an owned copy, in-place on a copy
        s.add("toowned", d); s.regs.append(list(codes)); own = len(s.regs) - 1
        s.add("torev", d); s.regs.append(None); r1 = len(s.regs) - 1
        s.add("torev", SD(own)); s.regs.append(None); r2 = len(s.regs) - 1
        s.add("clone", own); s.regs.append(None); r3 = len(s.regs) - 1
        s.add("rev", r3)
        s.add("codes", SD(r1))
        s.add("eq", 2, SD(r1), SD(r2))
        s.add("eq", 2, SD(r1), SD(r3))
        s.add("rev", r3)
        s.add("eq", 2, SD(r3), SD(own))          # twice restores
        s.add("codes", d)                          # receiver untouched
        s.add("codes", SD(base))
        if has_comp:
            s.add("tocomp", d); s.regs.append(None); c1 = len(s.regs) - 1
            s.add("torevcomp", d); s.regs.append(None); rc1 = len(s.regs) - 1
            s.add("tocomp", SD(own)); s.regs.append(None); c2 = len(s.regs) - 1
            s.add("torevcomp", SD(own)); s.regs.append(None); rc2 = len(s.regs) - 1
            s.add("codes", SD(c1))
            s.add("codes", SD(rc1))
            s.add("eq", 2, SD(c1), SD(c2))
            s.add("eq", 2, SD(rc1), SD(rc2))
            # either order of composition
            s.add("torev", SD(c1)); s.regs.append(None); x1 = len(s.regs) - 1
            s.add("tocomp", SD(r1)); s.regs.append(None); x2 = len(s.regs) - 1
            s.add("eq", 2, SD(x1), SD(rc1))
            s.add("eq", 2, SD(x2), SD(rc1))
            # in place, twice
            s.add("clone", own); s.regs.append(None); y = len(s.regs) - 1
            s.add("comp", y); s.add("eq", 2, SD(y), SD(c1))
            s.add("comp", y); s.add("eq", 2, SD(y), SD(own))
            s.add("revcomp", y); s.add("eq", 2, SD(y), SD(rc1))
            s.add("revcomp", y); s.add("eq", 2, SD(y), SD(own))
            s.add("codes", d)
        out.append(s.ops)
    out += long_scripts(rng, ci, tier, ['rev', 'comp'])
    return out


# ---------------------------------------------------------------- C20
def gen_C20(rng, ci, tier):
    out = []
    assert ci.name in MASK_CODECS
    pos5 = [12, 25, 38, 51]
    # every symbol on its own and as a run (uniform sequences are where whole-sequence shortcuts go wrong)
    for x in ci.items:
        s = Script(ci)
        for n in (1, 2, ci.per_word, ci.per_word + 1, 33):
            s.add("collect", 0, [x] * n); r = len(s.regs); s.regs.append([x] * n)
            s.add("tomask", r); m = len(s.regs); s.regs.append(None)
            s.add("tounmask", r); u = len(s.regs); s.regs.append(None)
            s.add("codes", SD(m)); s.add("codes", SD(u))
            s.add("clone", r); c = len(s.regs); s.regs.append(None)
            s.add("unmask", c); s.add("codes", SD(c)); s.add("mask", c); s.add("codes", SD(c))
        out.append(s.ops)
    # long sequences (many words; a blocked or chunked implementation must keep the symbol framing):
    # compared with the expected symbols through linear observations only
    mtab, utab = ci.tab["mask"], ci.tab["unmask"]
    for n in (scale(tier, [819, 820, 1229], [819, 820, 821, 1229, 1639, 2050])):
        codes = rand_codes(rng, ci, n)
        s = Script(ci)
        own = s.new_from_codes(rng, codes, how="collect")
        s.add("tomask", own); m = len(s.regs); s.regs.append(None)
        s.add("tounmask", own); u = len(s.regs); s.regs.append(None)
        s.add("collect", 0, [mtab[c] for c in codes]); em = len(s.regs); s.regs.append(None)
        s.add("collect", 0, [utab[c] for c in codes]); eu = len(s.regs); s.regs.append(None)
        s.add("eq", 2, SD(m), SD(em)); s.add("eq", 2, SD(u), SD(eu))
        s.add("clone", own); c = len(s.regs); s.regs.append(None)
        s.add("mask", c); s.add("eq", 2, SD(c), SD(em))
        s.add("unmask", c); s.add("eq", 2, SD(c), SD(eu))
        out.append(s.ops)
    for it in range(scale(tier, 80, 1500)):
        s = Script(ci)
        n = pick_len(rng, ci, scale(tier, 150, 400))
        if ci.bits == 5 and it % 2 == 0:
            n = max(n, rng.choice(pos5) + 64 * rng.randint(0, 1) // 5 + 2)
        codes = rand_codes(rng, ci, n)
        own = s.new_from_codes(rng, codes)
        s.add("tomask", own); m = len(s.regs); s.regs.append(None)
        s.add("tounmask", own); u = len(s.regs); s.regs.append(None)
        s.add("codes", SD(m)); s.add("display", SD(m))
        s.add("codes", SD(u)); s.add("display", SD(u))
        s.add("display", SD(own))
        # idempotence / involution, unmask after mask
        s.add("tomask", m); mm = len(s.regs); s.regs.append(None)
        s.add("tounmask", m); um = len(s.regs); s.regs.append(None)
        s.add("codes", SD(mm)); s.add("codes", SD(um))
        s.add("eq", 2, SD(um), SD(u))
        s.add("eq", 2, SD(mm), SD(m))
        # in place on a clone
        s.add("clone", own); c = len(s.regs); s.regs.append(None)
        s.add("mask", c); s.add("eq", 2, SD(c), SD(m))
        s.add("unmask", c); s.add("codes", SD(c))
        # commutes with complement and with reverse
        s.add("tocomp", SD(m)); a = len(s.regs); s.regs.append(None)
        s.add("tocomp", SD(own)); b = len(s.regs); s.regs.append(None)
        s.add("tomask", b); b2 = len(s.regs); s.regs.append(None)
        s.add("eq", 2, SD(a), SD(b2))
        s.add("torev", SD(m)); a = len(s.regs); s.regs.append(None)
        s.add("torev", SD(own)); b = len(s.regs); s.regs.append(None)
        s.add("tomask", b); b2 = len(s.regs); s.regs.append(None)
        s.add("eq", 2, SD(a), SD(b2))
        s.add("codes", SD(a))
        out.append(s.ops)
    return out


# ---------------------------------------------------------------- C06
def gen_C06(rng, ci, tier):
    out = []
    two = ci.items[:2]

    def history(depth_ops, maxlen, exhaustive_args=None):
        s = Script(ci)
        n = pick_len(rng, ci, maxlen)
        s.new_from_codes(rng, rand_codes(rng, ci, n))
        src = rand_codes(rng, ci, pick_len(rng, ci, 60) + 3)
        s.add("collect", 0, src); s.regs.append(src); srcreg = len(s.regs) - 1
        s.add("clone", 0); s.regs.append(list(s.regs[0]));
        for _ in range(depth_ops):
            tgt = rng.choice([0, 0, 0, len(s.regs) - 1 if s.regs[-1] is not None else 0])
            if s.regs[tgt] is None:
                tgt = 0
            cur = s.regs[tgt]
            L = len(cur)
            k = rng.random()
            if k < 0.12:
                c = rng.choice(ci.items); s.add("push", tgt, c); cur.append(c)
            elif k < 0.22:
                cs = rand_codes(rng, ci, rng.randint(0, 6)); s.add("extend", tgt, cs); cur.extend(cs)
            elif k < 0.55:
                # argument slice: any window of any register (also of the target itself)
                areg = rng.choice([srcreg, srcreg, tgt, rng.randrange(len(s.regs))])
                if s.regs[areg] is None:
                    areg = srcreg
                alen = len(s.regs[areg])
                a = rng.randint(0, alen); b = rng.randint(a, min(alen, a + 20))
                arg = list(s.regs[areg][a:b])
                d = window_sd(areg, a, b, rng)
                which = rng.choice(["append", "prepend", "insert"])
                if which == "append":
                    s.add("append", tgt, d); cur.extend(arg)
                elif which == "prepend":
                    s.add("prepend", tgt, d); cur[0:0] = arg
                else:
                    i = rng.choice([0, L, rng.randint(0, L)])
                    s.add("insert", tgt, i, d); cur[i:i] = arg
            elif k < 0.8:
                a = rng.randint(0, L); b = rng.randint(a, L)
                forms = [(0, a, b), (2, 0, b), (4, a, 0), (5, 0, 0)]
                if b > a:
                    forms.append((1, a, b - 1))
                if b > 0:
                    forms.append((3, 0, b - 1))
                if a > 0 and b > a - 1 and b >= a:
                    forms.append((6, a - 1, b - 1)) if b >= 1 else None
                f = rng.choice([x for x in forms if x])
                if f[0] == 5 and rng.random() < 0.7:
                    f = (0, a, b)
                s.add("remove", tgt, f[0], f[1], f[2])
                lo, hi = {0: (f[1], f[2]), 1: (f[1], f[2] + 1), 2: (0, f[2]), 3: (0, f[2] + 1),
                          4: (f[1], L), 5: (0, L), 6: (f[1] + 1, f[2] + 1)}[f[0]]
                del cur[lo:hi]
            elif k < 0.9:
                t = rng.choice([rng.randint(0, L), L, max(L - 1, 0), 0])
                s.add("truncate", tgt, t); del cur[t:]
            elif k < 0.93:
                s.add("clear", tgt); del cur[:]
            elif k < 0.97:
                s.add("clone", tgt); s.regs.append(list(cur))
            else:
                a = rng.randint(0, L); b = rng.randint(a, L)
                s.add("toowned", window_sd(tgt, a, b, rng)); s.regs.append(list(cur[a:b]))
            s.add("all")
        return s.ops
    # bounded exhaustive-ish: all histories of depth <= 2 over a 2-letter alphabet with tiny arguments
    base = [two[0], two[1 % len(two)], two[0]]
    small_ops = []
    for c in two:
        small_ops.append(("push", 0, c))
    small_ops.append(("extend", 0, [two[0], two[-1]]))
    for a in range(0, 3):
        for b in range(a, 3):
            small_ops.append(("append", 0, SD(1, [(0, a, b)])))
            small_ops.append(("prepend", 0, SD(1, [(0, a, b)])))
    for i in range(0, 4):
        small_ops.append(("insert", 0, i, SD(1, [(0, 0, 2)])))
    for a in range(0, 4):
        for b in range(a, 4):
            small_ops.append(("remove", 0, 0, a, b))
    small_ops += [("remove", 0, 5, 0, 0), ("remove", 0, 4, 1, 0), ("remove", 0, 2, 0, 2),
                  ("remove", 0, 1, 0, 1), ("remove", 0, 3, 0, 1), ("remove", 0, 6, 0, 1)]
    for t in range(0, 5):
        small_ops.append(("truncate", 0, t))
    small_ops.append(("clear", 0))
    depth2 = scale(tier, False, True)
    for o1 in small_ops:
        seqs = [[o1]]
        if depth2:
            seqs += [[o1, o2] for o2 in small_ops if not (o2[0] in ("insert", "remove"))]
        for ops in seqs:
            pre = [("collect", 0, base), ("collect", 0, [two[-1], two[0], two[-1]]), ("clone", 0)]
            script = list(pre)
            for o in ops:
                script.append(o)
                script.append(("all",))
            out.append(script)
    for _ in range(scale(tier, 60, 1200)):
        out.append(history(rng.randint(5, scale(tier, 25, 60)), scale(tier, 120, 300)))
    out += long_scripts(rng, ci, tier, ['edit'])
    return out


# ---------------------------------------------------------------- C02
def gen_C02(rng, ci, tier):
    out = []
    grid = KGRID[ci.name]
    for it in range(scale(tier, 90, 1800)):
        s = Script(ci)
        n = pick_len(rng, ci, scale(tier, 150, 300))
        codes = rand_codes(rng, ci, n)
        a = s.new_from_codes(rng, codes, how="collect")
        kind = rng.choice(["equal", "equal", "onesym", "prefix", "suffix", "other"])
        if kind == "equal":
            other = list(codes)
        elif kind == "onesym" and n > 0 and len(ci.items) > 1:
            other = list(codes)
            p = rng.choice([0, n - 1, rng.randrange(n)])
            other[p] = rng.choice([c for c in ci.items if c != other[p]])
        elif kind == "prefix":
            other = list(codes[:rng.randint(0, n)])
        elif kind == "suffix":
            other = list(codes[rng.randint(0, n):])
        else:
            other = rand_codes(rng, ci, n)
        d = s.embed(rng, other)             # slice at a random start offset
        b = d.reg
        s.add("toowned", d); s.regs.append(list(other)); o = len(s.regs) - 1
        for m in (0, 1, 9):
            s.add("eq", m, SD(a, [(5, 0, 0)]), d)
            s.add("eq", m, d, SD(a, [(5, 0, 0)]))
        s.add("eq", 2, SD(a), SD(o)); s.add("eq", 2, SD(o), SD(a))
        s.add("eq", 7, SD(a), SD(o)); s.add("eq", 8, SD(a), SD(o))
        s.add("eq", 3, SD(a), d); s.add("eq", 4, SD(a), d)
        s.add("eq", 5, d, SD(a)); s.add("eq", 6, d, SD(a))
        s.add("hasheq", SD(a), d)
        s.add("hasheq", d, SD(o))
        s.add("hasheq", SD(a), SD(o))
        s.add("mapget", a, d)
        s.add("mapget", o, d)
        # displayed text
        txt = codes_to_bytes(ci, codes)
        if all(t is not None and t < 128 for t in txt):
            s.add("eqstr", d, txt)
            s.add("eqstr", SD(a), txt)
            s.add("eqstr", SD(a), codes_to_bytes(ci, other))
        out.append(s.ops)
    # sequences that differ in exactly ONE BIT of one symbol (where the flipped code is a symbol): at
    # lengths around word boundaries every bit of the last symbols, and a random position elsewhere -
    # an equality or a hash that ignores some bits must show here
    blens = sorted({l for l in boundary_lengths(ci.bits) if 1 <= l <= 3 * ci.per_word + 2} | {1, 2, ci.per_word + 1})
    for n in blens:
        x = rand_codes(rng, ci, n)
        s = Script(ci)
        a = s.new_from_codes(rng, x, how="collect")
        cnt = 0
        for p in sorted({n - 1, max(0, n - 2), rng.randrange(n)}):
            for j in range(ci.bits):
                c2 = x[p] ^ (1 << j)
                if c2 not in ci.items:
                    continue
                y = list(x); y[p] = c2
                d = s.embed(rng, y)
                s.add("eq", 0, SD(a, [(5, 0, 0)]), d)
                s.add("eq", 3, SD(a), d)
                s.add("hasheq", SD(a), d)
                s.add("mapget", a, d)
                cnt += 1
        if cnt:
            out.append(s.ops)
    # two windows of the SAME parent (same length, different or equal content, close offsets)
    for it in range(scale(tier, 60, 1200)):
        s = Script(ci)
        n = rng.choice([1, 2, 3, 4, 5, 8, rng.randint(1, 40)])
        w = rand_codes(rng, ci, n)
        gap = rng.choice([0, 1, 2, 3, rng.randint(0, 2 * ci.per_word)])
        same = rng.random() < 0.5
        w2 = list(w) if same else rand_codes(rng, ci, n)
        pre = rand_codes(rng, ci, rng.choice([0, 1, 2, ci.per_word - 1, rng.randint(0, ci.per_word)]))
        parent = pre + w + rand_codes(rng, ci, gap) + w2 + rand_codes(rng, ci, 2)
        s.add("collect", 0, parent); s.regs.append(parent)
        a0 = len(pre); b0 = a0 + n + gap
        d1 = window_sd(0, a0, a0 + n, rng); d2 = window_sd(0, b0, b0 + n, rng)
        for m in (0, 1, 9):
            s.add("eq", m, d1, d2)
        s.add("hasheq", d1, d2)
        # overlapping windows shifted by one symbol
        if len(parent) > n + 1:
            s.add("eq", 0, window_sd(0, a0, a0 + n, rng), window_sd(0, a0 + 1, a0 + 1 + n, rng))
        s.add("eq", 3, SD(0), SD(0, [(5, 0, 0)]))
        out.append(s.ops)
    out += arr_scripts(rng, ci, tier, scale(tier, 40, 800))
    # k-mers against slices / owned / text, every storage type
    for it in range(scale(tier, 90, 1800)):
        s = Script(ci)
        w = rng.choice([0, 0, 0, 1, 2])
        K = pick_K(rng, grid[w])
        codes = rand_codes(rng, ci, K)
        d = s.embed(rng, codes)
        s.add("kfrom", K, w, d)
        s.add("keq", 0, d); s.add("keq", 1, d)
        s.add("khasheq", d)
        s.add("toowned", d); s.regs.append(list(codes)); o = len(s.regs) - 1
        s.add("khasheq", SD(o))
        if w == 0:
            s.add("keqseq", o)
            txt = codes_to_bytes(ci, codes)
            if all(t is not None and t < 128 for t in txt):
                s.add("keqstr", txt)
        # a sequence that differs / has another length
        kind = rng.choice(["onesym", "shorter", "longer", "other"])
        other = list(codes)
        if kind == "onesym" and len(ci.items) > 1:
            p = rng.randrange(K)
            other[p] = rng.choice([c for c in ci.items if c != other[p]])
        elif kind == "shorter":
            other = other[:-1]
        elif kind == "longer":
            other = other + [rng.choice(ci.items)]
        else:
            other = rand_codes(rng, ci, K)
        if len(other) * ci.bits <= WBITS[w] and len(other) > 0:
            d2 = s.embed(rng, other)
            s.add("keq", 0, d2); s.add("keq", 1, d2)
            s.add("khasheq", d2)
            if w == 0:
                s.add("toowned", d2); s.regs.append(list(other)); o2 = len(s.regs) - 1
                s.add("keqseq", o2)
                txt = codes_to_bytes(ci, other)
                if all(t is not None and t < 128 for t in txt):
                    s.add("keqstr", txt)
        out.append(s.ops)
    out += long_scripts(rng, ci, tier, ['eq'])
    return out


# ---------------------------------------------------------------- C04
def gen_C04(rng, ci, tier):
    out = []
    grid = KGRID[ci.name]
    pw = ci.per_word
    for it in range(scale(tier, 80, 1500)):
        s = Script(ci)
        # integer conversion of slices that fit a word, at any offset, and of longer ones (refused)
        n = rng.choice([1, 2, pw - 1, pw, pw, pw + 1, pw + 2, rng.randint(1, pw), rng.randint(pw + 1, 3 * pw)])
        n = max(n, 1)
        codes = rand_codes(rng, ci, n)
        d = s.embed(rng, codes)
        s.add("tousize", d)
        s.add("toowned", d); s.regs.append(list(codes)); o = len(s.regs) - 1
        s.add("tousize", SD(o))
        if n <= pw:
            s.add("intousize", o)
        if n * ci.bits <= 8:
            s.add("tou8", d)
        s.add("tou8", SD(d.reg, d.ranges + [(6, rng.randrange(n), 0)]))
        out.append(s.ops)
    # k-mers: value of a k-mer made from a slice; decoding an integer below 2^(K*BITS)
    for it in range(scale(tier, 80, 1500)):
        s = Script(ci)
        w = rng.choice([0, 0, 1, 2])
        K = pick_K(rng, grid[w])
        codes = rand_codes(rng, ci, K)
        d = s.embed(rng, codes)
        s.add("kfrom", K, w, d)
        s.add("kobs")
        if w == 0:
            s.add("kusize")
            s.add("kderef")
        # integer -> k-mer -> symbols (canonical items only, so that display is defined)
        v = 0
        cs = rand_codes(rng, ci, K)
        for i, c in enumerate(cs):
            v |= c << (i * ci.bits)
        s.add("kint", K, w, v & (2 ** 64 - 1), v >> 64)
        s.add("kobs")
        if w == 0:
            s.add("kderef"); s.add("ktoseq"); s.regs.append(list(cs))
            s.add("codes", SD(len(s.regs) - 1))
        out.append(s.ops)
    # the exported word image of owned sequences however they were produced
    for it in range(scale(tier, 100, 2000)):
        s = Script(ci)
        n = pick_len(rng, ci, scale(tier, 150, 300))
        codes = rand_codes(rng, ci, n)
        d = s.embed(rng, codes)
        made = []
        s.add("toowned", d); s.regs.append(list(codes)); made.append(len(s.regs) - 1)
        s.add("fromslice", d); s.regs.append(None); made.append(len(s.regs) - 1)
        s.add("torev", d); s.regs.append(None); made.append(len(s.regs) - 1)
        if ci.name in COMP_CODECS:
            s.add("tocomp", d); s.regs.append(None); made.append(len(s.regs) - 1)
            s.add("torevcomp", d); s.regs.append(None); made.append(len(s.regs) - 1)
        # bitwise ops of two windows at independent offsets
        d2 = s.embed(rng, rand_codes(rng, ci, n))
        s.add("and", d, d2); s.regs.append(None); made.append(len(s.regs) - 1)
        s.add("or", d2, d); s.regs.append(None); made.append(len(s.regs) - 1)
        s.add("bitand", made[0], made[-1]); s.regs.append(None); made.append(len(s.regs) - 1)
        s.add("bitor", made[0], made[-2]); s.regs.append(None); made.append(len(s.regs) - 1)
        # edited
        s.add("clone", made[0]); s.regs.append(list(codes)); e = len(s.regs) - 1; made.append(e)
        if n:
            a = rng.randint(0, n); b = rng.randint(a, n)
            s.add("remove", e, 0, a, b)
            s.add("insert", e, rng.randint(0, n - (b - a)), d2)
            s.add("prepend", e, d)
            s.add("rev", e)
        if ci.name in MASK_CODECS:
            s.add("tomask", made[0]); s.regs.append(None); made.append(len(s.regs) - 1)
        for r in made:
            s.add("intoraw", r)
        out.append(s.ops)
    # the image after every single kind of edit (the edit itself must leave the content at bit 0)
    for it in range(scale(tier, 120, 2400)):
        s = Script(ci)
        n = pick_len(rng, ci, scale(tier, 150, 300))
        codes = rand_codes(rng, ci, n)
        e = s.new_from_codes(rng, codes, how=rng.choice(["parse", "collect", "window"]))
        d2 = s.embed(rng, rand_codes(rng, ci, rng.randint(0, 40)))
        a = rng.choice([0, 0, rng.randint(0, n)])
        b = rng.randint(a, n)
        which = rng.choice(["remove_prefix", "remove_prefix", "remove", "remove_suffix", "truncate", "insert",
                            "append", "prepend", "push", "extend", "clear_push", "clone", "rev", "two"])
        if which == "remove_prefix":
            b = rng.choice([1, 2, 3, ci.per_word - 1, ci.per_word, ci.per_word + 1, rng.randint(0, n)])
            b = min(b, n)
            form = rng.choice([0, 2]) if b > 0 else 0
            s.add("remove", e, form, 0, b)
            if b > 0 and rng.random() < 0.3:
                pass
        elif which == "remove":
            s.add("remove", e, 0, a, b)
        elif which == "remove_suffix":
            s.add("remove", e, 4, a, 0)
        elif which == "truncate":
            s.add("truncate", e, a)
        elif which == "insert":
            s.add("insert", e, a, d2)
        elif which == "append":
            s.add("append", e, d2)
        elif which == "prepend":
            s.add("prepend", e, d2)
        elif which == "push":
            s.add("push", e, rng.choice(ci.items))
        elif which == "extend":
            s.add("extend", e, rand_codes(rng, ci, rng.randint(0, 40)))
        elif which == "clear_push":
            s.add("clear", e); s.add("push", e, rng.choice(ci.items))
        elif which == "clone":
            s.add("clone", e); s.regs.append(None); e = len(s.regs) - 1
        elif which == "rev":
            s.add("rev", e)
        else:
            s.add("remove", e, 2, 0, min(n, rng.randint(1, 5)))
            s.add("push", e, rng.choice(ci.items))
            s.add("clone", e); s.regs.append(None); e = len(s.regs) - 1
        s.add("intoraw", e)
        s.add("codes", SD(e))
        out.append(s.ops)
    # rebuilding from an image: all symbol counts 0 .. words*64/BITS + 2 (bounded exhaustive)
    for words in range(0, scale(tier, 3, 4)):
        ws = [rng.getrandbits(64) for _ in range(words)]
        # keep only canonical symbols in the image so that decoding is defined
        maxn = words * 64 // ci.bits
        cs = rand_codes(rng, ci, maxn)
        bits = 0
        for i, c in enumerate(cs):
            bits |= c << (i * ci.bits)
        ws = [(bits >> (64 * i)) & (2 ** 64 - 1) for i in range(words)]
        for n in range(0, maxn + 3):
            s = Script(ci)
            s.add("fromraw", n, ws)
            s.add("len", SD(0))
            s.add("codes", SD(0))
            out.append(s.ops)
    for it in range(scale(tier, 40, 800)):
        s = Script(ci)
        n = pick_len(rng, ci, 150)
        codes = rand_codes(rng, ci, n)
        o = s.new_from_codes(rng, codes)
        s.add("intoraw", o)
        # image -> sequence with the right count gives an equal sequence
        bits = 0
        for i, c in enumerate(codes):
            bits |= c << (i * ci.bits)
        words = (n * ci.bits + 63) // 64
        ws = [(bits >> (64 * i)) & (2 ** 64 - 1) for i in range(words)]
        s.add("fromraw", n, ws); s.regs.append(list(codes)); r = len(s.regs) - 1
        s.add("eq", 2, SD(o), SD(r))
        s.add("hasheq", SD(o), SD(r))
        out.append(s.ops)
    return out


# ---------------------------------------------------------------- C08
def gen_C08(rng, ci, tier):
    out = []
    grid = KGRID[ci.name]
    for it in range(scale(tier, 100, 2000)):
        s = Script(ci)
        K = pick_K(rng, grid[0])
        n = rng.choice([0, 1, max(K - 1, 0), K, K + 1, K + 2, 2 * K, rng.randint(0, 3 * K + 5),
                        pick_len(rng, ci, 120)])
        codes = rand_codes(rng, ci, n)
        d = s.embed(rng, codes) if rng.random() < 0.7 else SD(s.new_from_codes(rng, codes))
        s.add("kmers", K, 0, d)
        s.add("windows", d, K)
        if n >= K:
            i = rng.randint(0, n - K)
            wd = SD(d.reg, d.ranges + [(0, i, i + K)])
            s.add("kfrom", K, 0, wd)
            s.add("kobs"); s.add("kderef"); s.add("kasref")
            s.add("ktoseq"); s.regs.append(list(codes[i:i + K]))
            s.add("codes", SD(len(s.regs) - 1))
            s.add("display", wd)
        out.append(s.ops)
    for it in range(scale(tier, 100, 2000)):
        s = Script(ci)
        w = rng.choice([0, 1, 2])
        K = pick_K(rng, grid[w])
        # construction from a slice succeeds exactly when the length is K
        n = rng.choice([K, K, K - 1, K + 1, 0, rng.randint(0, K + 3)])
        if rng.random() < 0.25:
            # too long by a "round" amount: a length check done in a narrow integer, in words or in
            # bytes must not let these through (K + 2^j bits for j = 3..10, in symbols)
            n = K + rng.choice([8, 16, 32, 64, 128, 256, 512, 1024]) // ci.bits * rng.choice([1, 1, 2])
        n = max(n, 0)
        codes = rand_codes(rng, ci, n)
        d = s.embed(rng, codes)
        # a valid current k-mer first: a failed construction must leave it alone, and kobs never
        # shows an uninitialised register
        v0 = 0
        for i, c in enumerate(rand_codes(rng, ci, K)):
            v0 |= c << (i * ci.bits)
        s.add("kint", K, w, v0 & (2 ** 64 - 1), v0 >> 64)
        s.add("kfrom", K, w, d)
        s.add("kobs")
        if w == 0:
            s.add("toowned", d); s.regs.append(list(codes))
            s.add("kfromseq", K, 0, len(s.regs) - 1)
            s.add("kobs")
        # unchecked construction (what kmer! expands to) on a slice of exactly K symbols
        d3 = s.embed(rng, rand_codes(rng, ci, K))
        s.add("kunsafe", K, w, d3)
        s.add("kobs")
        s.add("keq", 0, d3)
        # from text: right length and valid, wrong length, invalid byte
        n2 = rng.choice([K, K, K, K - 1, K + 1, K + rng.choice([8, 16, 32, 64, 128, 256, 512]) // ci.bits])
        txt = [rng.choice(ci.valid_bytes) for _ in range(max(n2, 0))]
        if rng.random() < 0.3 and txt:
            bad = [b for b in ci.invalid_bytes if b < 128]
            txt[rng.randrange(len(txt))] = rng.choice(bad)
        s.add("kstr", K, w, txt)
        s.add("kobs")
        out.append(s.ops)
    return out


# ---------------------------------------------------------------- C09
def gen_C09(rng, ci, tier):
    out = []
    grid = KGRID[ci.name]
    rots = lambda K: [0, 1, K - 1, K, K + 1, 2 * K, 65535, 65536, 2 ** 32 - 1, rng.randint(0, 10 * K)]

    def one(K, w, codes, nops, forced=None):
        s = Script(ci)
        d = s.embed(rng, codes)
        s.add("kfrom", K, w, d)
        cur = list(codes)
        for i in range(nops):
            ops = ["rotl", "rotr", "pushl", "pushr"]
            if w == 0:
                ops += ["rev", "torev"]
                if ci.name == "dna":
                    ops += ["comp", "tocomp", "revcomp", "torevcomp"]
            o = forced[i] if forced else rng.choice(ops)
            if o == "rotl":
                n = rng.choice(rots(K)); s.add("krotl", n); n %= K; cur = cur[n:] + cur[:n]
            elif o == "rotr":
                n = rng.choice(rots(K)); s.add("krotr", n); n %= K; cur = cur[K - n:] + cur[:K - n]
            elif o == "pushl":
                c = rng.choice(ci.items); s.add("kpushl", c); cur = [c] + cur[:-1]
            elif o == "pushr":
                c = rng.choice(ci.items); s.add("kpushr", c); cur = cur[1:] + [c]
            elif o in ("rev", "torev"):
                s.add("k" + o); cur = cur[::-1]
            elif o in ("comp", "tocomp"):
                s.add("k" + o); cur = [3 - c for c in cur]
            else:
                s.add("k" + o); cur = [3 - c for c in cur][::-1]
            s.add("kobs")
            # the same operation on the equivalent sequence, compared through the API
            s.add("collect", 0, cur); s.regs.append(list(cur)); r = len(s.regs) - 1
            s.add("keq", 0, SD(r, [(5, 0, 0)]))
            if w == 0:
                s.add("keqseq", r)
        return s.ops
    # exhaustive for small K*BITS: all k-mers of K symbols over the items when that is <= 4096
    for K in grid[0]:
        total = len(ci.items) ** K
        if total > scale(tier, 300, 4096) or K * ci.bits > 12:
            continue
        for tup in itertools.product(ci.items, repeat=K):
            s = Script(ci)
            s.add("collect", 0, list(tup))
            s.add("kfrom", K, 0, SD(0))
            s.add("krev"); s.add("kobs")
            s.add("krev"); s.add("kobs")
            if ci.name == "dna":
                s.add("kcomp"); s.add("kobs"); s.add("krevcomp"); s.add("kobs")
                s.add("krevcomp"); s.add("kcomp"); s.add("kobs")
            s.add("krotl", 1); s.add("kobs"); s.add("krotr", 1); s.add("kpushl", tup[0]); s.add("kobs")
            s.add("kpushr", tup[-1]); s.add("kobs")
            out.append(s.ops)
    # every K of the usize grid x every whole-k-mer operation, at least once (a special case at one K,
    # e.g. the k-mer that fills its word, must not depend on the draw)
    for K in grid[0]:
        whole = ["rev", "torev"] + (["comp", "tocomp", "revcomp", "torevcomp"] if ci.name == "dna" else [])
        for o in whole:
            out.append(one(K, 0, rand_codes(rng, ci, K), 1, forced=[o]))
        for wch in (0, 1, 2):
            if K in grid[wch]:
                out.append(one(K, wch, rand_codes(rng, ci, K), 4, forced=["rotl", "pushl", "rotr", "pushr"]))
    for it in range(scale(tier, 150, 3000)):
        w = rng.choice([0, 0, 0, 1, 2])
        K = rng.choice(grid[w] if rng.random() < 0.6 else [grid[w][-1], grid[w][-2], grid[w][0]])
        pat = rng.random()
        if pat < 0.15:
            codes = [ci.items[-1]] * K
        elif pat < 0.3:
            codes = [max(ci.items)] * K
        else:
            codes = rand_codes(rng, ci, K)
        out.append(one(K, w, codes, rng.randint(1, 6)))
    return out


# ---------------------------------------------------------------- C10
def gen_C10(rng, ci, tier):
    out = []
    grid = KGRID[ci.name]
    is_ord = ci.name in ORD_CODECS

    def val(codes):
        v = 0
        for i, c in enumerate(codes):
            v |= c << (i * ci.bits)
        return v
    if is_ord:
        # exhaustive pairs for small K
        for K in grid[0]:
            total = len(ci.items) ** K
            if total > scale(tier, 16, 64):
                continue
            allk = list(itertools.product(ci.items, repeat=K))
            for x in allk:
                s = Script(ci)
                s.add("kint", K, 0, val(x), 0)
                for y in allk:
                    s.add("kcmp", val(y), 0)
                out.append(s.ops)
        for it in range(scale(tier, 100, 2000)):
            s = Script(ci)
            w = rng.choice([0, 0, 1, 2])
            K = pick_K(rng, grid[w])
            x = rand_codes(rng, ci, K)
            s.add("kint", K, w, val(x) & (2 ** 64 - 1), val(x) >> 64)
            for _ in range(4):
                y = list(x)
                r = rng.random()
                if r < 0.4:
                    p = rng.choice([0, K - 1, rng.randrange(K)])
                    y[p] = rng.choice(ci.items)
                elif r < 0.8:
                    y = rand_codes(rng, ci, K)
                s.add("kcmp", val(y) & (2 ** 64 - 1), val(y) >> 64)
            out.append(s.ops)
        # minimisers
        for it in range(scale(tier, 50, 1000)):
            s = Script(ci)
            K = pick_K(rng, grid[0])
            n = rng.choice([K - 1, K, K + 1, rng.randint(K, K + 40)])
            d = s.embed(rng, rand_codes(rng, ci, max(n, 0)))
            s.add("kmin", K, 0, d)
            s.add("kmers", K, 0, d)
            out.append(s.ops)
    # equal-length owned sequences order like the k-mers (and like colex in general)
    for it in range(scale(tier, 150, 3000)):
        s = Script(ci)
        n = rng.choice([0, 1, 2, 3, ci.per_word, ci.per_word + 1, rng.randint(0, 80)])
        x = rand_codes(rng, ci, n)
        y = list(x)
        r = rng.random()
        if r < 0.4 and n:
            p = rng.choice([0, n - 1, rng.randrange(n)])
            y[p] = rng.choice(ci.items)
        elif r < 0.8:
            y = rand_codes(rng, ci, n)
        a = s.new_from_codes(rng, x)
        b = s.new_from_codes(rng, y)
        # Ord for Seq exists for every codec (k-mer order only where the symbols are Ord)
        if rng.random() < 0.3 and n:
            # stale bits behind the end: a longer sequence cut back to x
            extra = rand_codes(rng, ci, rng.choice([1, 2, ci.per_word]))
            s.add("extend", a, extra); s.add("truncate", a, n)
        s.add("cmp", a, b); s.add("cmp", b, a); s.add("cmp", a, a)
        s.add("eq", 2, SD(a), SD(b))
        if is_ord and 0 < n <= ci.per_word and n in grid[0]:
            s.add("kint", n, 0, val(x), 0)
            s.add("kcmp", val(y), 0)
        out.append(s.ops)
    return out


# ---------------------------------------------------------------- C12 (IUPAC only)
def gen_C12(rng, ci, tier):
    out = []
    assert ci.name == "iupac"
    # all 256 symbol pairs, as single-symbol windows at independent offsets
    for x in range(16):
        s = Script(ci)
        for y in range(16):
            d1 = s.embed(rng, [x]); d2 = s.embed(rng, [y])
            s.add("and", d1, d2); s.regs.append(None); s.add("codes", SD(len(s.regs) - 1))
            s.add("or", d1, d2); s.regs.append(None); s.add("codes", SD(len(s.regs) - 1))
            s.add("contains", 0, d1, d2)
        out.append(s.ops)
    for it in range(scale(tier, 120, 2500)):
        s = Script(ci)
        n = pick_len(rng, ci, scale(tier, 120, 300))
        x = rand_codes(rng, ci, n)
        kind = rng.random()
        if kind < 0.35:
            # y a position-wise subset of x, so that contains holds
            y = [c & rng.getrandbits(4) for c in x]
        elif kind < 0.5:
            y = list(x)
        else:
            y = rand_codes(rng, ci, n)
        d1 = s.embed(rng, x); d2 = s.embed(rng, y)
        s.add("and", d1, d2); s.regs.append(None); a = len(s.regs) - 1; s.add("codes", SD(a))
        s.add("or", d1, d2); s.regs.append(None); o = len(s.regs) - 1; s.add("codes", SD(o))
        s.add("toowned", d1); s.regs.append(list(x)); o1 = len(s.regs) - 1
        s.add("toowned", d2); s.regs.append(list(y)); o2 = len(s.regs) - 1
        s.add("bitand", o1, o2); s.regs.append(None); s.add("eq", 2, SD(len(s.regs) - 1), SD(a))
        s.add("bitor", o1, o2); s.regs.append(None); s.add("eq", 2, SD(len(s.regs) - 1), SD(o))
        s.add("contains", 0, d1, d2)
        s.add("contains", 1, SD(o1), d2)
        s.add("contains", 0, d2, d1)
        # length mismatches
        if n:
            s.add("contains", 0, d1, SD(d2.reg, d2.ranges + [(0, 0, rng.randint(0, n - 1))]))
            s.add("contains", 1, SD(o1), SD(d2.reg, d2.ranges + [(4, 1, 0)]))
        s.add("tocomp", d1); s.regs.append(None); s.add("codes", SD(len(s.regs) - 1))
        out.append(s.ops)
    out += arr_scripts(rng, ci, tier, scale(tier, 60, 1200))
    out += long_scripts(rng, ci, tier, ['setops'])
    return out



ARR_GRID = {"dna": [1, 2, 3, 4, 5, 8, 16, 31, 32, 33, 40, 64, 65],
            "iupac": [1, 2, 3, 4, 8, 15, 16, 17, 20, 32, 33]}


def arr_scripts(rng, ci, tier, count):
    """SeqArray<A, N, W> (the type behind dna!/iupac! literals) against slices at arbitrary offsets"""
    out = []
    if ci.name not in ARR_GRID:
        return out
    for it in range(count):
        s = Script(ci)
        n = rng.choice(ARR_GRID[ci.name])
        codes = rand_codes(rng, ci, n)
        kind = rng.choice(["equal", "equal", "onesym", "subset", "shorter", "longer", "other"])
        other = list(codes)
        if kind == "onesym":
            p = rng.choice([0, n - 1, rng.randrange(n)])
            other[p] = rng.choice([c for c in ci.items if c != other[p]])
        elif kind == "subset" and ci.name == "iupac":
            other = [c & rng.getrandbits(4) for c in codes]
        elif kind == "shorter":
            other = other[:-1]
        elif kind == "longer":
            other = other + rand_codes(rng, ci, 1)
        elif kind == "other":
            other = rand_codes(rng, ci, n)
        d = s.embed(rng, other)
        s.add("arr", codes, d)
        out.append(s.ops)
    return out

# ---------------------------------------------------------------- C19
def gen_C19_conv(rng, ci, tier):
    out = []
    assert ci.name == "dna"
    for it in range(scale(tier, 80, 1500)):
        s = Script(ci)
        n = pick_len(rng, ci, scale(tier, 150, 300))
        codes = rand_codes(rng, ci, n)
        d = s.embed(rng, codes) if rng.random() < 0.7 else SD(s.new_from_codes(rng, codes))
        s.add("conv", 0, d)
        s.add("conv", 1, d)
        s.add("display", d)
        out.append(s.ops)
    # static arrays (the type behind dna! literals) convert too: From<&SeqArray> / From<SeqArray>
    out += arr_scripts(rng, ci, tier, scale(tier, 40, 800))
    return out


def gen_C19_trim(rng, ci, tier):
    out = []
    valid = ci.valid_bytes
    bad = ci.invalid_bytes
    # bounded exhaustive: every string of length <= 4 over {valid, valid2, bad}
    alpha = [valid[0], valid[-1], bad[0] if bad[0] != 0 else bad[1]]
    # the NUL byte in every position of short inputs
    if 0 in bad:
        for n in range(1, 5):
            for pos in range(n):
                for other in (valid[0], bad[-1]):
                    b = [valid[-1]] * n
                    if n > 1:
                        b[(pos + 1) % n] = other
                    b[pos] = 0
                    s = Script(ci)
                    s.add("trim", b)
                    s.add("codes", SD(0))
                    out.append(s.ops)
    for n in range(0, scale(tier, 5, 6)):
        for tup in itertools.product(alpha, repeat=n):
            s = Script(ci)
            s.add("trim", list(tup))
            s.add("codes", SD(0))
            out.append(s.ops)
    for it in range(scale(tier, 80, 1500)):
        s = Script(ci)
        n = pick_len(rng, ci, 100)
        core = [rng.choice(valid) for _ in range(n)]
        if rng.random() < 0.35 and n > 2:
            # interior bad byte; byte 0 and byte 255 are favoured (sentinel values of an implementation)
            core[rng.randrange(1, n - 1)] = rng.choice([x for x in (0, 255) if x in bad] + [rng.choice(bad)])
        lead = [rng.choice(bad) for _ in range(rng.choice([0, 0, 1, 3, 10]))]
        tail = [rng.choice(bad) for _ in range(rng.choice([0, 0, 1, 3, 10]))]
        if rng.random() < 0.1:
            core = []
        b = lead + core + tail
        s.add("trim", b)
        s.add("codes", SD(0)); s.add("display", SD(0))
        # strict parsing of the span
        s.add("parse", 4, core)
        s.add("eq", 2, SD(0), SD(1))
        out.append(s.ops)
    return out


# ---------------------------------------------------------------- C13 / C14 / C15
def gen_C13(rng, ci, tier):
    out = []
    assert ci.name == "dna"
    # all 64 codons at all 32 offsets inside a word (including straddles)
    for off in range(32):
        s = Script(ci)
        pre = rand_codes(rng, ci, off)
        allc = []
        for i in range(64):
            allc += [i & 3, (i >> 2) & 3, (i >> 4) & 3]
        s.add("collect", 0, pre + allc)
        s.add("xlate", 1, SD(0, [(4, off, 0)]))
        if off % 8 == 0:
            for i in range(0, 64, 7):
                s.add("xlate", 2, SD(0, [(0, off + 3 * i, off + 3 * i + 3)]))
        out.append(s.ops)
    for it in range(scale(tier, 60, 1200)):
        s = Script(ci)
        n = pick_len(rng, ci, scale(tier, 150, 300))
        d = s.embed(rng, rand_codes(rng, ci, n))
        s.add("xlate", 0, d)
        s.add("xlate", 1, d)
        s.add("codes", d)
        out.append(s.ops)
    for n in (0, 1, 2, 4, 5):
        s = Script(ci)
        s.add("collect", 0, rand_codes(rng, ci, n))
        s.add("xlate", 2, SD(0))
        out.append(s.ops)
    return out


def gen_C14(rng, ci, tier):
    out = []
    assert ci.name == "iupac"
    # every one of the 16^3 codons presented as a slice at a varying offset
    step = scale(tier, 4, 1)
    for c2 in range(16):
        s = Script(ci)
        for c1 in range(16):
            codons = []
            for c0 in range(0, 16, 1):
                codons += [c0, c1, c2]
            off = rng.randint(0, 17)
            s.add("collect", 0, rand_codes(rng, ci, off) + codons); r = len(s.regs); s.regs.append(None)
            for i in range(0, 16, step):
                s.add("xlatei", SD(r, [(0, off + 3 * i, off + 3 * i + 3)]))
        out.append(s.ops)
    # "codons of any other length are reported invalid": short, long, and lengths that are 3 modulo a
    # power of two of symbols or bits (a length check in a narrow integer must not let them through)
    for n in (0, 1, 2, 4, 5, 6, 9, 16, 19, 35, 64, 67, 128, 131, 195, 259, 515):
        s = Script(ci)
        s.add("collect", 0, rand_codes(rng, ci, n + 3))
        s.add("xlatei", SD(0, [(0, 2, 2 + n)]))
        out.append(s.ops)
    s = Script(ci)
    for a in AMINO_CODES:
        s.add("xcodon", a)
    out.append(s.ops)
    return out


AMINO_CODES = [6, 27, 18, 2, 31, 10, 17, 12, 0, 13, 44, 16, 5, 1, 8, 24, 4, 14, 43, 19, 3]


def gen_C15(rng, ci, tier, amino_codes=None):
    amino_codes = amino_codes or AMINO_CODES
    out = []
    for it in range(scale(tier, 60, 1200)):
        s = Script(ci)
        clen = rng.choice([1, 2, 3, 3, 3, 4])
        nent = rng.choice([0, 1, 2, 3, 5, 8, 12, 20])
        aminos = rng.sample(amino_codes, k=min(len(amino_codes), rng.choice([1, 2, 3, 5, 8])))
        entries = []
        for _ in range(nent):
            entries.append((rand_codes(rng, ci, clen), rng.choice(aminos)))
        if nent and rng.random() < 0.3:
            # a duplicated key with a different value: the map keeps the last one
            k, _ = rng.choice(entries)
            entries.append((list(k), rng.choice(amino_codes)))
        flat = []
        for k, a in entries:
            flat += [len(k)] + list(k) + [a]
        s.add("ctnew", flat)
        # queries: keys and non-keys presented as slices at every kind of offset
        qs = [list(k) for k, _ in entries[:6]]
        qs += [rand_codes(rng, ci, clen) for _ in range(3)]
        qs += [rand_codes(rng, ci, max(clen - 1, 0)), rand_codes(rng, ci, clen + 1)]
        # near misses: a key with exactly one symbol changed (first / last / any position)
        for k, _ in entries[:4]:
            for pos in {0, len(k) - 1, rng.randrange(len(k))}:
                for alt in rng.sample(ci.items, min(3, len(ci.items))):
                    if alt != k[pos]:
                        q = list(k); q[pos] = alt
                        qs.append(q)
        # neighbouring codes of the first symbol (single-bit neighbours)
        for k, _ in entries[:3]:
            for bit in range(ci.bits):
                alt = k[0] ^ (1 << bit)
                if alt in ci.items:
                    qs.append([alt] + list(k[1:]))
        for q in qs:
            d = s.embed(rng, q)
            s.add("ctq", d)
        for a in set(aminos + rng.sample(amino_codes, 3)):
            s.add("ctr", a)
        out.append(s.ops)
    return out


# ---------------------------------------------------------------- C18
def gen_C18(rng, ci, tier):
    out = []
    grid = KGRID[ci.name]
    for it in range(scale(tier, 80, 1500)):
        s = Script(ci)
        n = pick_len(rng, ci, scale(tier, 150, 300))
        codes = rand_codes(rng, ci, n)
        kind = rng.choice(["parsed", "copied", "edited", "reversed", "cleared", "empty", "head", "head"])
        if kind == "parsed":
            r = s.new_from_codes(rng, codes, how="parse")
        elif kind == "copied":
            r = s.new_from_codes(rng, codes, how="window")
        elif kind == "head":
            h = rng.choice([1, 2, 3, 5, 31, 62, 63, rng.randint(1, 63)])
            if rng.random() < 0.5:
                # whole words of content behind a non-zero head
                codes = rand_codes(rng, ci, (64 // ci.bits if 64 % ci.bits == 0 else 32) * rng.choice([1, 2, 3]))
            h = h - h % ci.bits if rng.random() < 0.5 and h >= ci.bits else h
            s.add("frombv", h, codes); s.regs.append(list(codes)); r = len(s.regs) - 1
        elif kind == "edited":
            r = s.new_from_codes(rng, codes)
            extra = rand_codes(rng, ci, 5)
            s.add("extend", r, extra)
            s.add("truncate", r, max(0, n - 2))
            s.add("push", r, rng.choice(ci.items))
        elif kind == "reversed":
            r = s.new_from_codes(rng, codes)
            s.add("rev", r)
        elif kind == "cleared":
            r = s.new_from_codes(rng, codes)
            s.add("clear", r)
            s.add("push", r, rng.choice(ci.items))
        else:
            r = s.new_from_codes(rng, [])
        for f in (0, 1):
            s.add("serde", f, r); s.regs.append(None); b = len(s.regs) - 1
            s.add("eq", 2, SD(r), SD(b))
            s.add("hasheq", SD(r), SD(b))
            s.add("codes", SD(b)); s.add("display", SD(b)); s.add("len", SD(b))
            s.add("serde", 1 - f, b); s.regs.append(None)
            s.add("eq", 2, SD(r), SD(len(s.regs) - 1))
        out.append(s.ops)
    # sequences that hold ALTERNATIVE bit patterns of their symbols (built from a bit vector): the round
    # trip must give back an equal value (same hash), not a re-encoded one
    alts = [b for b in range(2 ** ci.bits) if b < 256 and ci.tab["try_bits"][b] is not None
            and ci.tab["try_bits"][b] != b]
    if alts:
        for it in range(scale(tier, 20, 300)):
            n = pick_len(rng, ci, 60) + 1
            raw = [rng.choice(alts) if rng.random() < 0.4 else rng.choice(ci.items) for _ in range(n)]
            raw[rng.randrange(n)] = rng.choice(alts)
            s = Script(ci)
            s.add("frombv", rng.choice([0, 1, 5, 63]), raw); s.regs.append(None); r = len(s.regs) - 1
            for f in (0, 1):
                s.add("serde", f, r); s.regs.append(None); b = len(s.regs) - 1
                s.add("eq", 2, SD(r), SD(b))
                s.add("hasheq", SD(r), SD(b))
                s.add("codes", SD(b)); s.add("len", SD(b))
            out.append(s.ops)
    for it in range(scale(tier, 60, 1200)):
        s = Script(ci)
        w = rng.choice([0, 1, 2])
        K = pick_K(rng, grid[w])
        codes = rand_codes(rng, ci, K)
        d = s.embed(rng, codes)
        s.add("kfrom", K, w, d)
        s.add("kobs")
        s.add("kserde", 0); s.add("kobs"); s.add("keq", 0, d); s.add("khasheq", d)
        s.add("kserde", 1); s.add("kobs"); s.add("keq", 0, d); s.add("khasheq", d)
        out.append(s.ops)
    out += long_scripts(rng, ci, tier, ['serde'])
    return out
