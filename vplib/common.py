"""Shared plumbing: paths, shell, harness build, table dump, Coq compilation."""
import hashlib
import json
import os
import re
import shutil
import subprocess
import sys
import time

VERIF = os.path.dirname(os.path.dirname(os.path.abspath(__file__)))
REPO = os.environ.get("BIOSEQ_REPO", "/repo")
BUILD = os.path.join(VERIF, "build")
COQ = os.path.join(VERIF, "coq")
GEN = os.path.join(COQ, "gen")
HARNESS = os.path.join(VERIF, "harness")
TARGET = os.path.join(BUILD, "target")
EVIDENCE = os.path.join(VERIF, "evidence")
REPLAYS = os.path.join(VERIF, "replays")

CODECS = ["dna", "iupac", "amino", "text", "mdna", "miupac", "degen"]
PROFILES = ["dev", "release"]

ENV = dict(os.environ)
ENV.update({
    "CARGO_NET_OFFLINE": "true",
    "CARGO_TARGET_DIR": TARGET,
    "RUST_BACKTRACE": "0",
})


class CheckError(Exception):
    """An infrastructure failure (not a property verdict)."""


def log(*a):
    print("[vp]", *a, file=sys.stderr, flush=True)


def sh(cmd, cwd=None, timeout=1800, env=None, check=True, stdin=None):
    t0 = time.time()
    p = subprocess.run(cmd, cwd=cwd, env=env or ENV, timeout=timeout, input=stdin,
                       stdout=subprocess.PIPE, stderr=subprocess.PIPE, text=True)
    if check and p.returncode != 0:
        raise CheckError("command failed (%d): %s\n%s\n%s" % (
            p.returncode, " ".join(cmd) if isinstance(cmd, list) else cmd,
            p.stdout[-4000:], p.stderr[-6000:]))
    p.wall = time.time() - t0
    return p


def ensure_dirs():
    for d in (BUILD, GEN, EVIDENCE, REPLAYS):
        os.makedirs(d, exist_ok=True)


# ---------------------------------------------------------------- harness
_built = {}


def harness_bin(profile):
    return os.path.join(TARGET, "debug" if profile == "dev" else "release", "bioseq-harness")


DERIVE_FALLBACK = {}


def build_harness(profile):
    """(Re)build the harness against /repo's current working tree. Returns (ok, message)."""
    if profile in _built:
        return _built[profile]
    ensure_dirs()
    lock_src = os.path.join(REPO, "Cargo.lock")
    lock_dst = os.path.join(HARNESS, "Cargo.lock")
    if os.path.exists(lock_src):
        shutil.copyfile(lock_src, lock_dst)
    cmd = ["cargo", "build", "--offline", "-q"]
    if profile == "release":
        cmd.append("--release")
    p = sh(cmd, cwd=HARNESS, timeout=1500, check=False)
    ok = p.returncode == 0 and os.path.exists(harness_bin(profile))
    msg = "" if ok else (p.stderr[-6000:] or p.stdout[-2000:])
    if not ok:
        # the derive crate's internal functions are included by path; if only they stopped fitting
        # (renamed / new signature), fall back to tables synthesised from their specification and let
        # the generated programs validate the compiled macros
        p2 = sh(cmd + ["--no-default-features"], cwd=HARNESS, timeout=1500, check=False)
        if p2.returncode == 0 and os.path.exists(harness_bin(profile)):
            ok, msg = True, ""
            DERIVE_FALLBACK[profile] = (p.stderr[-1500:] or p.stdout[-800:])
    _built[profile] = (ok, msg)
    return _built[profile]


# ---------------------------------------------------------------- tables (translator (a))
_tables = {}


def _optlist(vals):
    return [None if v == "-" else int(v) for v in vals]


def dump_tables(profile):
    if profile in _tables:
        return _tables[profile]
    ok, msg = build_harness(profile)
    if not ok:
        raise CheckError("harness does not build against /repo (%s): %s" % (profile, msg))
    p = sh([harness_bin(profile), "tables"], timeout=300)
    T = {"codecs": {}, "raw": {}}
    cur = None
    for line in p.stdout.splitlines():
        parts = line.split()
        if not parts:
            continue
        key, vals = parts[0], parts[1:]
        if key == "codec":
            cur = {}
            T["codecs"][vals[0]] = cur
        elif key == "section":
            cur = None
        elif key == "end":
            cur = None
        elif key == "profile":
            T["profile"] = " ".join(vals)
        elif cur is not None:
            if key in ("bits", "has_comp", "has_mask"):
                cur[key] = int(vals[0])
            elif key == "items":
                cur[key] = [int(v) for v in vals]
            else:
                cur[key] = _optlist(vals)
        else:
            T["raw"][key] = vals
    _tables[profile] = T
    with open(os.path.join(BUILD, "tables_%s.json" % profile), "w") as f:
        json.dump(T, f)
    return T


# ---------------------------------------------------------------- Coq printing
def coq_optlist(l):
    return "[" + "; ".join("None" if v is None else "Some %d" % v for v in l) + "]"


def coq_list(l):
    return "[" + "; ".join(str(v) for v in l) + "]"


def coq_bool(b):
    return "true" if b else "false"


def codec_record(name, c):
    return ("Definition %s : codec := {|\n"
            "  c_bits := %d%%nat;\n  c_items := %s;\n  c_try_bits := %s;\n  c_un_bits := %s;\n"
            "  c_try_ascii := %s;\n  c_un_ascii := %s;\n  c_char := %s;\n  c_comp := %s;\n"
            "  c_has_comp := %s;\n  c_mask := %s;\n  c_unmask := %s;\n  c_has_mask := %s |}.\n" % (
                name, c["bits"], coq_list(c["items"]), coq_optlist(c["try_bits"]),
                coq_optlist(c["un_bits"]), coq_optlist(c["try_ascii"]), coq_optlist(c["un_ascii"]),
                coq_optlist(c["char"]), coq_optlist(c["comp"]), coq_bool(c["has_comp"]),
                coq_optlist(c["mask"]), coq_optlist(c["unmask"]), coq_bool(c["has_mask"])))


def _pairs(vals):
    out = []
    for v in vals:
        a, b = v.split(":")
        out.append((int(a), b))
    return out


def write_real_v(profile):
    """Translator (a): print the regenerated extensional tables as Gallina (coq/gen/Real_<p>.v)."""
    T = dump_tables(profile)
    R = T["raw"]
    out = ["(* GENERATED on every run from the compiled code of /repo (profile %s). Do not edit. *)" % profile,
           "From Coq Require Import List NArith Bool.",
           "From BioSeq Require Import Bits Codec Tables.",
           "Import ListNotations.",
           "Open Scope N_scope.",
           "Definition debug_assertions : bool := %s." % coq_bool(profile == "dev")]
    for name in CODECS:
        out.append(codec_record(name, T["codecs"][name]))
    out.append("Definition all_codecs : list codec := [%s]." % "; ".join(CODECS))
    # conversions
    out.append("Definition dna_to_iupac : list (N * N) := [%s]." %
               "; ".join("(%d, %s)" % p for p in _pairs(R["dna_to_iupac"])))
    out.append("Definition dna_to_text : list (N * N) := [%s]." %
               "; ".join("(%d, %s)" % p for p in _pairs(R["dna_to_text"])))

    def t2d(v):
        if v.startswith("E"):
            return "None"
        if v == "P":
            return "None"
        return "Some %s" % v
    out.append("Definition text_to_dna : list (option N) := [%s]." %
               "; ".join(t2d(v) for v in R["text_to_dna"]))
    # 0 ok / 1 error / 2 panic classification of text->dna, with the error payload
    out.append("Definition text_to_dna_err : list (option N) := [%s]." %
               "; ".join(("Some %s" % v[1:]) if v.startswith("E") and v[1:].isdigit() else "None"
                         for v in R["text_to_dna"]))
    # translation
    out.append("Definition std_to_amino : list (option N) := %s." %
               coq_optlist(_optlist(R["std_to_amino"])))
    out.append("Definition std_to_amino_badlen_panics : bool := %s." %
               coq_bool(all(v.endswith(":P") for v in R["std_to_amino_badlen"])))

    def tta(v):
        # Some code | ambiguous (None) ; invalid/panic are encoded apart
        return {"A": "TAmbiguous", "I": "TInvalid", "E": "TOther", "P": "TPanic"}.get(v, "TOk %s" % v)
    out.append("Definition std_try_to_amino : list tres := [%s]." %
               "; ".join(tta(v) for v in R["std_try_to_amino"]))
    out.append("Definition std_try_to_amino_badlen : list (N * tres * N) := [%s]." % "; ".join(
        "(%s, %s, %s)" % (v.split(":")[0],
                          "TInvalid" if v.split(":")[1].startswith("I") else tta(v.split(":")[1]),
                          v.split(":")[1][1:] if v.split(":")[1].startswith("I") else "0")
        for v in R["std_try_to_amino_badlen"]))

    def cod(v):
        if v == "A":
            return "CAmbiguous"
        if v == "V":
            return "CInvalid"
        if v in ("E", "P"):
            return "COther"
        return "COk [%s]" % "; ".join(v.split(","))
    out.append("Definition std_try_to_codon : list (N * cres) := [%s]." %
               "; ".join("(%d, %s)" % (a, cod(b)) for a, b in _pairs(R["std_try_to_codon"])))
    out.append("Definition std_to_codon : list (N * cres) := [%s]." %
               "; ".join("(%d, %s)" % (a, cod(b)) for a, b in _pairs(R["std_to_codon"])))

    # macro per-character tables: Some bits (as list bool) | None (compile error)
    def mac(v):
        if v in ("E", "P"):
            return "None"
        n, bits = v.split("/")
        return "Some (%s%%nat, [%s])" % (n, "; ".join("true" if b == "1" else "false" for b in bits))
    for key in ("macro_dna", "macro_iupac"):
        out.append("Definition %s : list (option (nat * list bool)) := [%s]." %
                   (key, "; ".join(mac(v) for v in R[key])))

    def wid(v):
        return {"E": "WErr", "P": "WPanic"}.get(v, "WOk %s" % v)
    out.append("Definition width_none : list wres := [%s]." % "; ".join(wid(v) for v in R["width_none"]))
    out.append("Definition width_attr : list (list wres) := [%s]." % ";\n  ".join(
        "[%s]" % "; ".join(wid(v) for v in R["width_%d" % n]) for n in range(10)))
    out.append("Definition rev2bit_k4 : list (option N) := %s." %
               coq_optlist([None if v == "P" else int(v) for v in R["rev2bit_k4"]]))
    path = os.path.join(GEN, "Real_%s.v" % profile)
    text = "\n".join(out) + "\n"
    with open(path, "w") as f:
        f.write(text)
    return path


# ---------------------------------------------------------------- Coq compilation
COQ_FLAGS = ["-Q", os.path.join(COQ, "theories"), "BioSeq",
             "-Q", os.path.join(COQ, "properties"), "BioSeqProps",
             "-Q", GEN, "BioSeqGen"]

_made = False


def coq_make():
    """Full .vo build of the hand-written development (never -vos). Idempotent and cached by make."""
    global _made
    if _made:
        return
    if not os.path.exists(os.path.join(COQ, "Makefile")) or \
            os.path.getmtime(os.path.join(COQ, "Makefile")) < os.path.getmtime(os.path.join(COQ, "_CoqProject")):
        sh(["coq_makefile", "-f", "_CoqProject", "-o", "Makefile"], cwd=COQ, timeout=120)
    p = sh(["make", "-j16"], cwd=COQ, timeout=3000, check=False)
    if p.returncode != 0:
        raise CheckError("the Coq development does not build:\n" + (p.stdout[-3000:] + p.stderr[-5000:]))
    _made = True


def coqc(path, timeout=1500):
    """Compile one generated file against the cached .vo files; returns the process."""
    return sh(["coqc", "-noglob"] + COQ_FLAGS + [path], cwd=GEN, timeout=timeout, check=False)


def file_hash(paths):
    h = hashlib.sha256()
    for p in paths:
        try:
            with open(p, "rb") as f:
                h.update(f.read())
        except OSError:
            h.update(b"<missing>")
    return h.hexdigest()[:16]
