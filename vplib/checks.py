"""Verdict logic: hygiene, instances on regenerated tables, correspondence, evidence, replays."""
import concurrent.futures as cf
import glob
import json
import os
import random
import re
import time

from . import props as P
from . import registry as R
from .common import (BUILD, COQ, COQ_FLAGS, EVIDENCE, GEN, REPLAYS, REPO, VERIF, CODECS, PROFILES,
                     CheckError, DERIVE_FALLBACK, build_harness, coq_make, coqc, dump_tables, file_hash, log, sh,
                     write_real_v)
from .gen import CodecInfo
from .vm import (SD, OPS, coq_mismatches_multi, op_repr, panic_messages, parse_output, run_rust, script_text,
                 script_coq)

FORBIDDEN = re.compile(
    r"\b(Admitted|admit|Axiom|Axioms|Parameter|Parameters|Conjecture|Conjectures|Hypothesis|Hypotheses|"
    r"Variable|Variables)\b|Unset\s+Guard|bypass_check|Admit\s+Obligations|type-in-type|impredicative-set|"
    r"Unset\s+Positivity|Unset\s+Universe")
ALLOWED_ASSUMPTIONS = set()   # target: every property theorem is closed under the global context

TRUSTED_BASE = [
    "Coq 8.16.1 kernel and its bytecode VM (vm_compute); native_compute is not used; no extraction",
    "axioms: none (every property theorem prints 'Closed under the global context')",
    "harness/ (Rust): table dumper over the complete finite domains, sequence-VM interpreter, "
    "catch_unwind, recording Hasher",
    "vplib/ (Python): Gallina printer of the tables, script generators, case-file writer, verdicts",
    "modelled, not verified: bitvec 1.1.1 as its list-of-bools semantics; std (HashMap, integer ops, "
    "swap_bytes); rustc/cargo/proc-macro expansion; serde, bincode, serde_json; soundness of the unsafe "
    "casts (memory safety)",
]


class Ctx:
    def __init__(self, pid, tier, seed):
        self.pid, self.tier, self.seed = pid, tier, seed
        self.violations = []       # dicts: {replay, found_input, what}
        self.obligations = 0
        self.discharged = 0
        self.evaluations = 0
        self.distinct = set()
        self.samples = []
        self.notes = []
        self.dist = {}
        self.t0 = time.time()
        self.replay_n = 0
        d = os.path.join(REPLAYS, pid)
        if os.path.isdir(d):
            for f in os.listdir(d):
                try:
                    os.remove(os.path.join(d, f))
                except OSError:
                    pass

    def violation(self, what, replay_obj, found_input):
        d = os.path.join(REPLAYS, self.pid)
        os.makedirs(d, exist_ok=True)
        self.replay_n += 1
        path = os.path.join(d, "%s-%d.json" % ("input" if found_input else "obligation", self.replay_n))
        replay_obj = dict(replay_obj)
        replay_obj.update({"property": self.pid, "what": what, "found_input": found_input})
        with open(path, "w") as f:
            json.dump(replay_obj, f, indent=1, default=str)
        self.violations.append({"replay": path, "found_input": found_input, "what": what})

    def count(self, key, n=1):
        self.dist[key] = self.dist.get(key, 0) + n


# ---------------------------------------------------------------- hygiene
def hygiene(ctx):
    """No Admitted/Axiom/... anywhere in the development; sections may declare Variables, so the
    words Variable/Hypothesis are only forbidden outside a Section."""
    files = sorted(glob.glob(os.path.join(COQ, "theories", "*.v")) +
                   glob.glob(os.path.join(COQ, "properties", "*.v")))
    bad = []
    for path in files:
        depth = 0
        text = open(path).read()
        text = re.sub(r"\(\*.*?\*\)", lambda m: "\n" * m.group(0).count("\n"), text, flags=re.S)
        for ln, line in enumerate(text.split("\n"), 1):
            if re.match(r"\s*Section\b", line):
                depth += 1
            if re.match(r"\s*End\b", line) and depth > 0:
                depth -= 1
            for m in FORBIDDEN.finditer(line):
                w = m.group(0)
                if w.startswith(("Variable", "Hypothes")) and depth > 0:
                    continue
                bad.append("%s:%d: %s" % (os.path.relpath(path, VERIF), ln, line.strip()[:120]))
    ctx.obligations += 1
    if bad:
        ctx.violation("forbidden construct in the Coq development", {"lines": bad}, False)
    else:
        ctx.discharged += 1


def print_assumptions(ctx, spec):
    """`Print Assumptions` of every property theorem must be within the allow-list."""
    thms = spec.get("theorems", [])
    if not thms:
        return
    path = os.path.join(GEN, "Assum_%s.v" % ctx.pid)
    with open(path, "w") as f:
        f.write("From BioSeqProps Require Import %s.\n" % ctx.pid)
        for t in thms:
            f.write('Print Assumptions %s.%s.\n' % (ctx.pid, t))
    p = coqc(path)
    if p.returncode != 0:
        ctx.obligations += len(thms)
        ctx.violation("property theorems do not check", {"coqc": (p.stdout + p.stderr)[-3000:],
                                                        "theorems": thms}, False)
        return
    blocks = re.split(r"(?=Closed under the global context|Axioms:)", p.stdout)
    blocks = [b for b in blocks if b.strip()]
    ctx.obligations += len(thms)
    if len(blocks) != len(thms):
        ctx.violation("cannot read Print Assumptions output", {"out": p.stdout[-3000:]}, False)
        return
    for t, b in zip(thms, blocks):
        if b.startswith("Closed under the global context"):
            ctx.discharged += 1
        else:
            names = set(re.findall(r"^(\S+)\s*:", b, flags=re.M))
            if names <= ALLOWED_ASSUMPTIONS:
                ctx.discharged += 1
            else:
                ctx.violation("theorem %s depends on axioms %s" % (t, sorted(names)),
                              {"theorem": t, "assumptions": b}, False)
    for ext in (".vo", ".vok", ".vos", ".glob"):
        try:
            os.remove(path[:-2] + ext)
        except OSError:
            pass


def coqchk(ctx, spec):
    """thorough tier: the independent checker re-checks the property's .vo and everything it
    depends on, and must report no axioms"""
    if not spec.get("theorems"):
        return
    p = sh(["coqchk", "-silent", "-o", "-Q", os.path.join(COQ, "theories"), "BioSeq",
            "-Q", os.path.join(COQ, "properties"), "BioSeqProps", "BioSeqProps.%s" % ctx.pid],
           cwd=COQ, timeout=1800, check=False)
    ctx.obligations += 1
    out = p.stdout + p.stderr
    m = re.search(r"\* Axioms:\s*(.*?)\n\s*\n", out, re.S)
    if p.returncode == 0 and m and m.group(1).strip() == "<none>":
        ctx.discharged += 1
        ctx.notes.append("coqchk: Axioms <none>")
    else:
        ctx.violation("coqchk does not accept the property file or reports axioms",
                      {"coqchk": out[-2500:]}, False)


# ---------------------------------------------------------------- instances on regenerated tables
_real_done = {}


def ensure_real(profile):
    """Regenerate Real_<profile>.v from the compiled code and compile it (cached by content)."""
    if profile in _real_done:
        return
    path = write_real_v(profile)
    h = file_hash([path, os.path.join(COQ, "theories", "Codec.vo"), os.path.join(COQ, "theories", "Tables.vo")])
    stamp = path + ".hash"
    vo = path[:-2] + ".vo"
    if not (os.path.exists(vo) and os.path.exists(stamp) and open(stamp).read() == h):
        p = coqc(path)
        if p.returncode != 0:
            raise CheckError("Real_%s.v does not compile: %s" % (profile, (p.stdout + p.stderr)[-3000:]))
        with open(stamp, "w") as f:
            f.write(h)
    _real_done[profile] = True


def instances(ctx, spec, profile):
    """Obligations re-proved on the regenerated tables: each is a boolean computed by vm_compute;
    a false one comes with a computed witness (the failing table entry)."""
    obs = spec.get("instances", lambda prof: [])(profile)
    if not obs:
        return
    ensure_real(profile)
    path = os.path.join(GEN, "Inst_%s_%s.v" % (ctx.pid, profile))
    with open(path, "w") as f:
        f.write("From Coq Require Import List NArith Bool.\n")
        f.write("From BioSeq Require Import %s.\n" % " ".join(spec.get("imports", ["Bits", "Codec", "Tables", "Spec", "Derive", "C05Check"])))
        f.write("From BioSeqGen Require Import Real_%s.\nImport ListNotations.\nOpen Scope N_scope.\n" % profile)
        for l in spec.get("extra_imports", []):
            f.write(l + "\n")
        for i, o in enumerate(obs):
            f.write("Definition ob_%d : bool := %s.\n" % (i, o["expr"]))
        f.write("Eval vm_compute in [%s].\n" % "; ".join("ob_%d" % i for i in range(len(obs))))
        for i, o in enumerate(obs):
            if o.get("witness"):
                f.write("Eval vm_compute in (%s).\n" % o["witness"])
        for i, o in enumerate(obs):
            f.write("Lemma inst_%d : %s = true. Proof. vm_compute. reflexivity. Qed.\n" % (i, o["expr"]))
            for j, thm in enumerate(o.get("lift", [])):
                f.write("Definition lifted_%d_%d := %s.\n" % (i, j, thm.replace("@INST", "inst_%d" % i)))
    p = coqc(path)
    out = p.stdout
    m = re.search(r"=\s*\[(.*?)\]\s*:\s*list bool", out, re.S)
    if not m:
        raise CheckError("cannot read instance results of %s: %s" % (path, (out + p.stderr)[-3000:]))
    vals = [v.strip() == "true" for v in m.group(1).split(";")]
    if len(vals) != len(obs):
        raise CheckError("instance result count mismatch in %s" % path)
    evals = re.findall(r"=\s*(.*?)\n\s*:\s", out[m.end():], re.S)
    wi = 0
    for i, (o, v) in enumerate(zip(obs, vals)):
        ctx.obligations += 1 + len(o.get("lift", []))
        ctx.evaluations += o.get("sweep", 0)
        if o.get("sweep"):
            ctx.distinct.add(hash((o["name"], profile)))
        w = None
        if o.get("witness"):
            w = evals[wi] if wi < len(evals) else None
            wi += 1
        if v:
            ctx.discharged += 1 + (len(o.get("lift", [])) if p.returncode == 0 else 0)
        else:
            ctx.violation("%s fails on the %s tables of the compiled code" % (o["name"], profile),
                          {"obligation": o["name"], "profile": profile, "expr": o["expr"],
                           "witness": " ".join((w or "").split()),
                           "witness_meaning": o.get("witness_meaning", "")}, True)
    if p.returncode != 0 and all(vals):
        ctx.violation("instance theorems of %s do not check (%s)" % (ctx.pid, profile),
                      {"coqc": (p.stdout + p.stderr)[-3000:], "file": path}, False)
    for ext in (".vo", ".vok", ".vos", ".glob"):
        try:
            os.remove(path[:-2] + ext)
        except OSError:
            pass


# ---------------------------------------------------------------- correspondence
OBSERVERS = {"len", "display", "codes", "reviter", "nth", "get", "windows", "chunks", "winvec", "chain",
             "eq", "eqstr", "cmp", "tousize", "tou8", "intousize", "intoraw", "hasheq", "mapget",
             "contains", "conv", "all", "arr", "kobs", "keq", "khasheq", "kcmp", "kderef", "kasref",
             "keqseq", "keqstr", "kusize", "kview", "kmers", "kmin", "xlate", "xlatei", "xcodon", "ctq", "ctr"}
EMITS = OBSERVERS | {"parse", "trim", "fromraw", "serde", "kfrom", "kstr", "kfromseq", "kserde"}


def first_diff(a, b):
    """index of the first differing observation between two (obs, panicked) outputs"""
    oa, pa = a
    ob, pb = b
    for i in range(min(len(oa), len(ob))):
        if oa[i] != ob[i]:
            return i
    if len(oa) != len(ob):
        return min(len(oa), len(ob))
    return len(oa) if pa != pb else None


def op_of_obs(script, k):
    """index of the op that emitted observation k (or where the script stopped)"""
    n = -1
    for i, op in enumerate(script):
        if op[0] in EMITS:
            n += 1
            if n == k:
                return i
    return len(script) - 1


def correspondence(ctx, spec):
    gens = spec.get("generators", [])
    if not gens:
        return
    tabs = dump_tables("dev")
    groups = []
    for codec, genf in gens:
        ci = CodecInfo(codec, tabs["codecs"][codec])
        rng = random.Random("%d/%s/%s/%s" % (ctx.seed, ctx.pid, codec, genf.__name__))
        scripts = genf(rng, ci, ctx.tier)
        # corpus first
        for profile in PROFILES:
            outs = run_rust(codec, profile, scripts, "%s_%s_%s_%s" % (ctx.pid, codec, genf.__name__, profile))
            groups.append(dict(tag="%s_%s_%s_%s" % (ctx.pid, codec, genf.__name__, profile), codec=codec,
                               profile=profile, scripts=scripts, outs=outs, gen=genf.__name__))
            ctx.evaluations += len(scripts)
            for s, o in zip(scripts, outs):
                ctx.count("scripts/%s" % codec)
                ctx.count("ops", len(s))
                if o[1]:
                    ctx.count("scripts ending in a panic")
                for op in s:
                    ctx.count("op/" + op[0])
                if len(s) >= 2:
                    ctx.distinct.add(hash((codec, script_text(s))))
        if len(ctx.samples) < 6 and scripts:
            k = len(scripts) // 2
            ctx.samples.append({"codec": codec, "generator": genf.__name__,
                                "script": [op_repr(o) for o in scripts[k]][:30],
                                "implementation_output": str(groups[-1]["outs"][k])[:600]})
    for profile in PROFILES:
        ensure_real(profile)
    results = coq_mismatches_multi(groups)
    shrunk = 0
    sc = [sum(g.get("scope", [0, 0, 0])[j] for g in groups) for j in range(3)]
    ctx.scope = {
        "scripts": sc[2], "within_list_machine_scope": sc[0],
        "implementation_equals_list_machine_directly": sc[1],
        "note": "Refine.vm_refines_list_machine: on these scripts the compared model IS the list-of-symbols "
                "reference interpreter; the rest use operations outside it (see DESIGN 4b)"}
    if sc[1] != sc[0] and not any(m for m, _ in results):
        raise CheckError("list machine and bit-level model disagree although the refinement theorem is proved: "
                         "codec_ok must have failed for a codec (see the C05 obligations)")
    for g, (mis, model) in zip(groups, results):
        ctx.obligations += 1
        if not mis:
            ctx.discharged += 1
            continue
        if len(ctx.violations) >= 6:
            continue
        # the model is proved equal to the property's specification on these observables, so a
        # disagreement on a concrete script is a concrete failing input
        i = mis[0]
        script, rust = g["scripts"][i], g["outs"][i]
        mod = model.get(i)
        k = first_diff(rust, mod) if mod else None
        small, o2, mod2 = script, rust, mod
        if shrunk < 2:
            shrunk += 1
            cut = script[:op_of_obs(script, k) + 1] if k is not None else script

            def differs(cand, g=g):
                o = run_rust(g["codec"], g["profile"], [cand], g["tag"] + "_shrink")
                (m2, md), = coq_mismatches_multi([dict(tag=g["tag"] + "_shrink", codec=g["codec"],
                                                       profile=g["profile"], scripts=[cand], outs=o)])
                return bool(m2), o[0], md.get(0)
            try:
                d, o_c, m_c = differs(cut)
                if d:
                    small, o2, mod2 = cut, o_c, m_c
                    budget = 12
                    j = len(small) - 2
                    while j >= 0 and budget > 0:
                        if small[j][0] in OBSERVERS:
                            cand = small[:j] + small[j + 1:]
                            budget -= 1
                            d, o_c, m_c = differs(cand)
                            if d:
                                small, o2, mod2 = cand, o_c, m_c
                        j -= 1
            except CheckError:
                pass
        crashed = any(o and o[0] == 4294967294 for o in (o2[0] if o2 else []))
        ctx.violation(
            ("the implementation CRASHED the process (signal) where the model %s (%s, %s)" % (
                "panics" if (mod2 and mod2[1]) else "returns", g["codec"], g["profile"])) if crashed else
            "implementation and proved model disagree (%s, %s)" % (g["codec"], g["profile"]),
            {"codec": g["codec"], "profile": g["profile"], "generator": g["gen"],
             "script": [op_repr(o) for o in small], "script_text": script_text(small),
             "script_coq": script_coq(small),
             "implementation_output": o2, "model_output": mod2,
             "implementation_panic_messages": panic_messages(g["codec"], g["profile"], small, g["tag"]),
             "first_differing_observation": first_diff(o2, mod2) if mod2 else k,
             "mismatching_cases_in_group": len(mis), "cases_in_group": len(g["scripts"])}, True)


# ---------------------------------------------------------------- evidence, verdict
def known_findings(pid):
    path = os.path.join(VERIF, "known_findings.txt")
    out = []
    if os.path.exists(path):
        for line in open(path):
            line = line.strip()
            if line.startswith("known:") and ("property=%s " % pid) in line:
                out.append(line)
    return out


def write_evidence(ctx, spec, wall):
    cov = {
        "obligations": ctx.obligations,
        "discharged": ctx.discharged,
        "checker_cmd": "cd /verif/coq && make -j16 (coqc 8.16.1, full .vo) ; coqc -Q theories BioSeq -Q properties "
                       "BioSeqProps -Q gen BioSeqGen gen/{Real,Inst,Assum,cases}_*.v ; python3 vp.py check %s" % ctx.pid,
        "trusted_base": TRUSTED_BASE + spec.get("trusted_extra", []),
        "evaluations": ctx.evaluations,
        "distinct_nontrivial": len(ctx.distinct),
        "rule": spec.get("rule", "scripts for the sequence VM generated from one PRNG seeded by VERIF_SEED "
                                 "(structured valid stream, malformed stream, bounded-exhaustive stream), each run "
                                 "through the dev and the release build and through the Gallina model; distinct = "
                                 "distinct script texts with at least two operations"),
        "samples": ctx.samples[:6] or [{"note": "table/instance obligations only"}],
        "theorems": spec.get("theorems", []),
        "refinement_scope": getattr(ctx, "scope", None),
        "generator_distribution": {k: v for k, v in sorted(ctx.dist.items()) if not k.startswith("op/")},
        "ops_exercised": {k[3:]: v for k, v in sorted(ctx.dist.items()) if k.startswith("op/")},
        "notes": ctx.notes + spec.get("notes", []) + (
            ["bio-seq-derive internals (parse_width, dna_seq, iupac_seq) could not be included by path for the %s "
             "build: the macro and width tables were synthesised from their specification and the compiled "
             "macros are validated through the generated programs only" % "/".join(sorted(DERIVE_FALLBACK))]
            if DERIVE_FALLBACK else []),
        "exhaustive": bool(spec.get("exhaustive", False)),
    }
    ev = {
        "property_id": ctx.pid, "tier": ctx.tier, "seed": ctx.seed, "level": "proof",
        "coverage": cov,
        "assumptions": spec.get("assumptions", []) + [
            "the hand-written Gallina model is tied to the code by regenerated tables (complete finite "
            "domains) and by differential execution of VM scripts (sampled); a behaviour outside both is "
            "covered by the theorem about the model only"],
        "wall_s": round(wall, 2),
        "violations": len(ctx.violations),
    }
    os.makedirs(EVIDENCE, exist_ok=True)
    with open(os.path.join(EVIDENCE, "%s.json" % ctx.pid), "w") as f:
        json.dump(ev, f, indent=1, default=str)


def run_check(pid, tier, seed):
    if pid not in R.REGISTRY:
        raise CheckError("unknown property %s" % pid)
    spec = R.REGISTRY[pid]
    ctx = Ctx(pid, tier, seed)
    # case files left behind by an interrupted run of this check
    import glob
    for f in glob.glob(os.path.join(GEN, "cases_%s_*" % pid)) + glob.glob(os.path.join(GEN, ".cases_%s_*" % pid)):
        try:
            os.remove(f)
        except OSError:
            pass
    coq_make()
    hygiene(ctx)
    print_assumptions(ctx, spec)
    if tier == "thorough":
        coqchk(ctx, spec)
    build_ok = True
    for profile in PROFILES:
        ok, msg = build_harness(profile)
        if not ok:
            build_ok = False
            ctx.obligations += 1
            ctx.violation("the correspondence harness does not build against /repo (%s profile): the tie "
                          "between model and code cannot be checked" % profile, {"cargo": msg[-3000:]}, False)
    if build_ok:
        for profile in PROFILES:
            instances(ctx, spec, profile)
        correspondence(ctx, spec)
        for extra in spec.get("extra", []):
            extra(ctx, spec)
    wall = time.time() - ctx.t0
    write_evidence(ctx, spec, wall)
    for k in known_findings(pid):
        print("KNOWN-FINDING: " + k[len("known:"):].strip())
    for v in ctx.violations:
        rel = os.path.relpath(v["replay"], VERIF)
        print("VIOLATION property=%s replay=%s%s" % (pid, rel, "" if v["found_input"] else " no-failing-input-found"))
        log(v["what"])
    log("%s %s: %d/%d obligations, %d scripts, %.1fs" % (pid, tier, ctx.discharged, ctx.obligations,
                                                       ctx.evaluations, wall))
    return 1 if ctx.violations else 0


def replay(path):
    obj = json.load(open(path))
    print(json.dumps({k: obj[k] for k in obj if k not in ("script_coq",)}, indent=1)[:6000])
    if "script_text" in obj:
        coq_make()
        ensure_real(obj["profile"])
        ops = obj["script_text"]
        p = os.path.join(BUILD, "replay.txt")
        open(p, "w").write(ops + "\n")
        from .common import harness_bin
        build_harness(obj["profile"])
        r = sh([harness_bin(obj["profile"]), "vm", obj["codec"], p], check=False)
        now = parse_output(r.stdout.strip().split("\n")[0] if r.stdout.strip() else "")
        print("implementation now:", now)
        print("model said       :", obj.get("model_output"))
        return 0 if list(now[0]) == list((obj.get("model_output") or [[], False])[0]) else 1
    return 0
