"""Script generators for the correspondence check (structured, mostly valid inputs plus a separate
malformed stream and a bounded-exhaustive stream; every random choice comes from one PRNG)."""
import itertools
import random

from .vm import SD

# storage widths: 0 usize, 1 u64, 2 u128
WBITS = {0: 64, 1: 64, 2: 128}

# the monomorphised (K, storage) grid of harness/src/vm.rs, per codec
KGRID = {
    "dna": {0: list(range(1, 33)), 1: [1, 2, 3, 8, 16, 31, 32], 2: [1, 2, 3, 31, 32, 33, 40, 63, 64]},
    "iupac": {0: list(range(1, 17)), 1: [1, 2, 3, 15, 16], 2: [1, 2, 3, 16, 17, 31, 32]},
    "amino": {0: list(range(1, 11)), 1: [1, 2, 3, 9, 10], 2: [1, 2, 3, 10, 11, 20, 21]},
    "text": {0: list(range(1, 9)), 1: [1, 2, 7, 8], 2: [1, 2, 8, 9, 15, 16]},
    "mdna": {0: list(range(1, 17)), 1: [1, 2, 15, 16], 2: [1, 2, 16, 17, 31, 32]},
    "miupac": {0: list(range(1, 13)), 1: [1, 2, 11, 12], 2: [1, 2, 12, 13, 24, 25]},
    "degen": {0: [1, 2, 3, 7, 8, 9, 31, 32, 33, 63, 64], 1: [1, 2, 63, 64], 2: [1, 2, 64, 65, 127, 128]},
}
ORD_CODECS = {"dna", "text", "mdna", "miupac", "degen"}
COMP_CODECS = {"dna", "iupac", "mdna", "miupac", "degen"}
MASK_CODECS = {"mdna", "miupac"}


def pick_K(rng, ks):
    """a K from a storage type's grid, biased to the ends (the k-mer that fills its word exactly, the one
    just below it, and K = 1): special cases there must not depend on the luck of a uniform draw"""
    if len(ks) > 3 and rng.random() < 0.35:
        return rng.choice([ks[-1], ks[-1], ks[-2], ks[0]])
    return rng.choice(ks)


class CodecInfo:
    def __init__(self, name, tab):
        self.name = name
        self.tab = tab
        self.bits = tab["bits"]
        self.items = list(tab["items"])
        self.try_ascii = tab["try_ascii"]
        self.char = tab["char"]
        self.valid_bytes = [b for b in range(256) if tab["try_ascii"][b] is not None]
        self.invalid_bytes = [b for b in range(256) if tab["try_ascii"][b] is None]
        # display byte of each item (may be None if the table is broken)
        self.item_chars = [tab["char"][c] if c < 256 else None for c in self.items]
        self.per_word = 64 // self.bits

    def ascii_of(self, code):
        return self.char[code]

    def code_of(self, byte):
        return self.try_ascii[byte]


def boundary_lengths(bits):
    out = {0, 1, 2, 3}
    for w in (64, 128, 192):
        q = w // bits
        out.update({max(q - 1, 0), q, q + 1})
    out.update({12, 13, 25, 26, 38, 51})
    return sorted(out)


def pick_len(rng, ci, maxlen=200):
    r = rng.random()
    if r < 0.45:
        return rng.choice([l for l in boundary_lengths(ci.bits) if l <= max(maxlen, 4)])
    if r < 0.8:
        return rng.randint(0, min(40, maxlen))
    return rng.randint(0, maxlen)


def rand_codes(rng, ci, n):
    r = rng.random()
    if r < 0.1 and ci.items:
        c = rng.choice(ci.items)
        return [c] * n
    if r < 0.2 and len(ci.items) >= 2:
        a, b = rng.sample(ci.items, 2)
        return [a if i % 2 == 0 else b for i in range(n)]
    return [rng.choice(ci.items) for _ in range(n)]


def codes_to_bytes(ci, codes):
    return [ci.ascii_of(c) for c in codes]


def rand_range(rng, n, ci, oob=False):
    """an in-bounds range form over a length-n sequence -> ((form,a,b), new_len) ;
    with oob=True a range just past the end (must panic)."""
    pw = ci.per_word
    if oob:
        form = rng.choice([0, 1, 2, 3, 4, 6, 0])
        if form == 0:
            if rng.random() < 0.5:
                a = rng.randint(0, n)
                return (0, a, n + rng.choice([1, 2])), None
            b = rng.randint(0, n)
            return (0, b + rng.choice([1, 2]), b), None       # a > b
        if form == 1:
            return (1, rng.randint(0, n), n + rng.choice([0, 1])), None
        if form == 2:
            return (2, 0, n + rng.choice([1, 2])), None
        if form == 3:
            return (3, 0, n + rng.choice([0, 1])), None
        if form == 4:
            return (4, n + rng.choice([1, 2]), 0), None
        return (6, n + rng.choice([0, 1]), 0), None

    def point():
        r = rng.random()
        if r < 0.25 and n >= pw:
            k = rng.randint(0, n // pw)
            p = k * pw + rng.choice([-1, 0, 1])
            return min(max(p, 0), n)
        if r < 0.35:
            return rng.choice([0, n])
        return rng.randint(0, n)
    forms = [0, 1, 2, 3, 4, 5, 6] if n > 0 else [0, 2, 4, 5]
    form = rng.choice(forms)
    a, b = sorted((point(), point()))
    if form == 0:
        return (0, a, b), b - a
    if form == 1:
        b = min(b, n - 1)
        a = min(a, b + 1)  # a..=b with a = b+1 is the empty range a..a
        if a > b:
            a = b
        return (1, a, b), b + 1 - a
    if form == 2:
        return (2, 0, b), b
    if form == 3:
        b = min(b, n - 1)
        return (3, 0, b), b + 1
    if form == 4:
        return (4, a, 0), n - a
    if form == 5:
        return (5, 0, 0), n
    i = min(a, n - 1)
    return (6, i, 0), 1


def rand_sd(rng, reg, n, ci, maxdepth=3, mindepth=0):
    """nested in-bounds slice descriptor -> (SD, (start, length)) in symbols of the register"""
    depth = rng.randint(mindepth, maxdepth)
    ranges = []
    start, length = 0, n
    for _ in range(depth):
        (f, a, b), nl = rand_range(rng, length, ci)
        if f in (0, 1, 4, 6):
            start += a
        ranges.append((f, a, b))
        length = nl
    return SD(reg, ranges), (start, length)


def window_sd(reg, a, b, rng=None):
    """a slice a..b expressed by a random equivalent form / nesting"""
    if rng is None or rng.random() < 0.5:
        return SD(reg, [(0, a, b)])
    r = rng.random()
    if r < 0.3 and b > a:
        return SD(reg, [(1, a, b - 1)])
    if r < 0.6:
        return SD(reg, [(4, a, 0), (2, 0, b - a)])
    return SD(reg, [(2, 0, b), (4, a, 0)])


class Script:
    """ops plus a shadow of the register contents (lists of codes) so arguments stay in bounds"""

    def __init__(self, ci):
        self.ci = ci
        self.ops = []
        self.regs = []   # shadow contents: list of codes (None when unknown)

    def add(self, *op):
        self.ops.append(tuple(op))

    def new_from_codes(self, rng, codes, how=None):
        """create a register holding exactly `codes`, via a random constructor, possibly as a
        copy of an offset window of a longer sequence"""
        ci = self.ci
        how = how if how is not None else rng.choice(["parse", "parse", "collect", "window", "window"])
        chars = codes_to_bytes(ci, codes)
        if how == "parse" and all(c is not None and ci.code_of(c) == k for c, k in zip(chars, codes)):
            self.add("parse", rng.randint(0, 5), chars)
            self.regs.append(list(codes))
        elif how == "window":
            pre = rand_codes(rng, ci, rng.choice([1, 2, 3, 5, ci.per_word - 1, ci.per_word, ci.per_word + 1, 7]))
            post = rand_codes(rng, ci, rng.randint(0, 3))
            self.add("collect", rng.randint(0, 4), pre + list(codes) + post)
            self.regs.append(pre + list(codes) + post)
            self.add("toowned", window_sd(len(self.regs) - 1, len(pre), len(pre) + len(codes), rng))
            self.regs.append(list(codes))
        else:
            self.add("collect", rng.randint(0, 4), list(codes))
            self.regs.append(list(codes))
        return len(self.regs) - 1

    def embed(self, rng, codes):
        """a register containing `codes` as a window at a random offset; returns the SD of the window"""
        ci = self.ci
        pre = rand_codes(rng, ci, rng.choice([0, 1, 2, 3, 5, 7, ci.per_word - 1, ci.per_word, ci.per_word + 1,
                                               rng.randint(0, 2 * ci.per_word)]))
        post = rand_codes(rng, ci, rng.randint(0, 4))
        self.add("collect", rng.randint(0, 4), pre + list(codes) + post)
        self.regs.append(pre + list(codes) + post)
        return window_sd(len(self.regs) - 1, len(pre), len(pre) + len(codes), rng)
