"""C16 / C17: checks over generated programs (each literal / enum is a separate macro expansion)."""
import os
import random
import re

from . import decls as D
from . import programs as PG
from .common import GEN, PROFILES, CheckError, codec_record, coq_list, coqc, log
from .checks import ensure_real


def _parse_nlist(txt):
    return [int(x) for x in re.findall(r"\d+", txt)]


def _coq_bytes(t):
    return "[" + "; ".join(str(b) for b in t.encode("utf-8")) + "]"


# ---------------------------------------------------------------- C16
def c16_programs(ctx, spec):
    rng = random.Random("%d/C16" % ctx.seed)
    lits = PG.gen_literals(rng, ctx.tier)
    bad = PG.gen_bad_literals(rng)
    src = PG.literal_program(lits)
    d = PG.make_crate("c16lits", src)
    for profile in PROFILES:
        ensure_real(profile)
        ok, out, err = PG.build_run(d, "c16lits", profile)
        ctx.obligations += 1
        if not ok:
            # a valid literal does not compile: find which
            ctx.violation("a program of valid literals does not compile or run (%s)" % profile,
                          {"profile": profile, "diagnostics": out[:10], "stderr": err[-1500:],
                           "literals_at_lines": {str(i): lits[i] for i in range(min(len(lits), 5))}}, True)
            continue
        obs = {}
        for line in out.splitlines():
            p = line.split(" ", 2)
            if p[0] == "L":
                i = int(p[1])
                a, b, c, e = [x.strip() for x in p[2].split("|")]
                obs[i] = ("L", [int(x) for x in (a.split() + b.split())], [int(x) for x in c.split()],
                          [int(x) for x in e.split()])
            elif p[0] == "K":
                f = line.split()
                obs[int(f[1])] = ("K", int(f[2]), int(f[3]) + (int(f[4]) << 64), [int(f[5]), int(f[6]), int(f[7])])
        if len(obs) != len(lits):
            raise CheckError("c16lits: %d outputs for %d literals" % (len(obs), len(lits)))
        path = os.path.join(GEN, "cases_C16_%s.v" % profile)
        with open(path, "w") as f:
            f.write("From Coq Require Import List NArith Bool.\nFrom BioSeq Require Import Bits Codec Tables SeqModel "
                    "KmerModel Macro.\nFrom BioSeqGen Require Import Real_%s.\nImport ListNotations.\nOpen Scope N_scope.\n" % profile)
            f.write("Definition nl_eqb (a b : list N) : bool := if list_eq_dec N.eq_dec a b then true else false.\n")
            f.write("Definition chk (k : N) (l : list N) (o1 o2 o3 : list N) : bool :=\n"
                    "  match k with\n"
                    "  | 0 => match lit_obs dna macro_dna l with Some (a, b, c) => nl_eqb a o1 && nl_eqb b o2 && nl_eqb c o3 | None => false end\n"
                    "  | 1 => match lit_obs iupac macro_iupac l with Some (a, b, c) => nl_eqb a o1 && nl_eqb b o2 && nl_eqb c o3 | None => false end\n"
                    "  | _ => match kmer_obs dna macro_dna l with Some v => nl_eqb [N.of_nat (length l); v] o1 && nl_eqb o3 [1; 1; 1] | None => false end\n"
                    "  end.\n")
            f.write("Definition cases : list (N * list N * list N * list N * list N) := [\n")
            rows = []
            for i, (m, t) in enumerate(lits):
                o = obs[i]
                k = {"dna": 0, "iupac": 1, "kmer": 2, "kmer64": 2, "kmer128": 2}[m]
                if o[0] == "L":
                    rows.append("(%d, %s, %s, %s, %s)" % (k, _coq_bytes(t), coq_list(o[1]), coq_list(o[2]), coq_list(o[3])))
                else:
                    rows.append("(%d, %s, %s, [], %s)" % (k, _coq_bytes(t), coq_list([o[1], o[2]]), coq_list(o[3])))
            f.write(";\n".join(rows) + "].\n")
            f.write("Fixpoint mis (i : N) (cs : list (N * list N * list N * list N * list N)) : list N :=\n"
                    "  match cs with [] => [] | (k, l, a, b, c) :: t => if chk k l a b c then mis (i + 1) t else i :: mis (i + 1) t end.\n")
            f.write("Eval vm_compute in (mis 0 cases).\n")
            # the model rejects every bad literal
            f.write("Definition bad : list (N * list N) := [%s].\n" % "; ".join(
                "(%d, %s)" % ({"dna": 0, "iupac": 1}[m], _coq_bytes(t)) for m, t in bad))
            f.write("Fixpoint acc (i : N) (cs : list (N * list N)) : list N :=\n"
                    "  match cs with [] => [] | (k, l) :: t =>\n"
                    "    match (match k with 0 => literal macro_dna l | _ => literal macro_iupac l end) with\n"
                    "    | None => acc (i + 1) t | Some _ => i :: acc (i + 1) t end end.\n")
            f.write("Eval vm_compute in (acc 0 bad).\n")
        p = coqc(path)
        if p.returncode != 0:
            raise CheckError("coqc failed on %s: %s" % (path, (p.stdout + p.stderr)[-2000:]))
        res = re.findall(r"=\s*(\[.*?\])\s*:\s*list N", p.stdout, re.S)
        mism, accepted = _parse_nlist(res[0]), _parse_nlist(res[1])
        ctx.evaluations += len(lits)
        for i, (m, t) in enumerate(lits):
            ctx.distinct.add(hash((m, t)))
            ctx.count("literals/%s" % m)
        if mism:
            i = mism[0]
            ctx.violation("a literal's compile-time value differs from the model / from runtime parsing (%s)" % profile,
                          {"profile": profile, "macro": lits[i][0], "literal": lits[i][1],
                           "observed": obs[i], "mismatching": len(mism), "of": len(lits)}, True)
        else:
            ctx.discharged += 1
        ctx.obligations += 1
        if accepted:
            ctx.violation("the macro model accepts a literal with a character outside the alphabet",
                          {"literal": bad[accepted[0]]}, True)
        else:
            ctx.discharged += 1
        if len(ctx.samples) < 4:
            ctx.samples.append({"literal": lits[40], "program_output": str(obs[40])[:300], "profile": profile})
    # rejection half: every bad literal is a compile error at its own line, no good one is
    srcb, line_of = PG.bad_literal_program(bad, lits[:len(bad)])
    db = PG.make_crate("c16bad", srcb)
    for profile in PROFILES[:1] if ctx.tier == "quick" else PROFILES:
        ok, diags, err = PG.build_run(db, "c16bad", profile)
        ctx.obligations += 1
        if ok:
            ctx.violation("a program whose literals all contain invalid characters compiled",
                          {"profile": profile, "bad_literals": bad[:5]}, True)
            continue
        errlines = set()
        for dg in diags:
            errlines.update(dg["lines"])
        missed = [bad[i] for i in range(len(bad)) if line_of[("bad", i)] not in errlines]
        spurious = [lits[i] for i in range(len(bad)) if ("good", i) in line_of and line_of[("good", i)] in errlines]
        ctx.evaluations += len(bad)
        ctx.count("invalid literals", len(bad))
        for b in bad:
            ctx.distinct.add(hash(b))
        if missed:
            ctx.violation("an invalid literal is not rejected at compile time", {"profile": profile,
                          "literal": missed[0], "not_rejected": len(missed), "of": len(bad)}, True)
        elif spurious:
            ctx.violation("a valid literal is rejected at compile time", {"profile": profile,
                          "literal": spurious[0]}, True)
        else:
            ctx.discharged += 1
    ctx.notes.append("iupac! accepts 'X' as the gap although the runtime parser rejects it: outside both halves of the "
                     "statement; no literal with X is compiled, so a maintainer may align the two either way")


# ---------------------------------------------------------------- C17
def c17_programs(ctx, spec):
    rng = random.Random("%d/C17" % ctx.seed)
    n = 28 if ctx.tier == "quick" else 160
    decls = [PG.gen_decl(rng, force_max=m) for m in (1, 2, 3, 127, 128, 254, 255, 255)]
    decls.append(PG.shadow_decl())
    decls += [PG.gen_decl(rng) for _ in range(n - len(decls))]
    # an enum whose display characters repeat the README style, and one with byte discriminants
    src = PG.enum_program(decls)
    d = PG.make_crate("c17enums", src)
    for profile in PROFILES:
        ensure_real(profile)
        ok, out, err = PG.build_run(d, "c17enums", profile)
        ctx.obligations += 1
        if not ok:
            # find the offending declaration by the diagnostic lines
            lines = sorted({l for dg in out for l in dg["lines"]}) if isinstance(out, list) else []
            srcl = src.split("\n")
            which = None
            for l in lines:
                for j in range(l - 1, -1, -1):
                    m = re.match(r"pub enum E(\d+)", srcl[j])
                    if m:
                        which = int(m.group(1))
                        break
                if which is not None:
                    break
            ctx.violation("a well-formed enum declaration is not accepted by derive(Codec) (%s)" % profile,
                          {"profile": profile, "diagnostics": out[:4] if isinstance(out, list) else str(out)[:500],
                           "stderr": err[-1200:],
                           "declaration": PG.decl_rust(decls[which], "E%d" % which) if which is not None else None}, True)
            continue
        tabs = PG.parse_enum_dump(out)
        path = os.path.join(GEN, "cases_C17_%s.v" % profile)
        with open(path, "w") as f:
            f.write("From Coq Require Import List NArith Bool.\nFrom BioSeq Require Import Bits Codec Tables Derive C05Check.\n"
                    "From BioSeqGen Require Import Real_%s.\nImport ListNotations.\nOpen Scope N_scope.\n" % profile)
            f.write("Definition wf := width_of_tables width_none width_attr.\n")
            for i, dcl in enumerate(decls):
                f.write("Definition d%d : decl := %s.\n" % (i, D.decl_coq(dcl)))
                f.write(codec_record("c%d" % i, tabs["E%d" % i]))
            f.write("Eval vm_compute in [%s].\n" % "; ".join(
                "derives_to wf d%d c%d && codec_okb c%d" % (i, i, i) for i in range(len(decls))))
        p = coqc(path)
        m = re.search(r"=\s*\[(.*?)\]\s*:\s*list bool", p.stdout, re.S)
        if not m:
            raise CheckError("cannot read %s: %s" % (path, (p.stdout + p.stderr)[-2000:]))
        vals = [v.strip() == "true" for v in m.group(1).split(";")]
        ctx.evaluations += len(decls)
        badi = [i for i, v in enumerate(vals) if not v]
        rt = [i for i in range(len(decls)) if tabs["E%d" % i].get("roundtrip") != [1, 1]]
        for i, dcl in enumerate(decls):
            ctx.distinct.add(hash(PG.decl_rust(dcl, "E")))
            ctx.count("enums/variants=%d" % len(dcl["variants"]))
        if badi:
            i = badi[0]
            ctx.violation("a derived codec does not implement its enum declaration (%s)" % profile,
                          {"profile": profile, "declaration": PG.decl_rust(decls[i], "E%d" % i),
                           "compiled_tables": {k: v for k, v in tabs["E%d" % i].items() if k in ("bits", "items")},
                           "failing": len(badi), "of": len(decls)}, True)
        elif rt:
            i = rt[0]
            ctx.violation("a sequence over a derived codec breaks the round-trip laws (%s)" % profile,
                          {"profile": profile, "declaration": PG.decl_rust(decls[i], "E%d" % i)}, True)
        elif p.returncode != 0:
            ctx.violation("instance theorems for derived codecs do not check (%s)" % profile,
                          {"coqc": (p.stdout + p.stderr)[-2000:]}, False)
        else:
            ctx.discharged += 1
        if len(ctx.samples) < 3:
            ctx.samples.append({"declaration": PG.decl_rust(decls[7], "E7"),
                                "compiled_bits": tabs["E7"]["bits"], "profile": profile})
    # rejection half
    srcb, spans = PG.bad_enum_program()
    db = PG.make_crate("c17bad", srcb)
    for profile in PROFILES:
        ok, diags, err = PG.build_run(db, "c17bad", profile)
        ctx.obligations += 1
        if ok:
            ctx.violation("malformed enum declarations compiled", {"profile": profile}, True)
            continue
        errlines = set()
        for dg in diags:
            errlines.update(dg["lines"])
        problems = []
        for kind, a, b in spans:
            hit = any(a <= l <= b for l in errlines)
            if kind == "good" and hit:
                problems.append(("valid declaration rejected", a, b))
            if kind != "good" and not hit:
                problems.append(("%s not rejected" % kind, a, b))
        ctx.evaluations += len(spans)
        if problems:
            k, a, b = problems[0]
            ctx.violation("derive(Codec): %s (%s)" % (k, profile),
                          {"profile": profile, "source": "\n".join(srcb.split("\n")[a - 1:b]),
                           "diagnostics": diags[:6]}, True)
        else:
            ctx.discharged += 1
