"""Correspondence for programs (C16, C17): every literal / enum declaration is its own macro
expansion, so crates are generated, compiled with the real macros in dev and release, run, and
their output compared with the Gallina Macro / Derive models."""
import json
import os
import random
import re
import shutil

from .common import BUILD, ENV, GEN, REPO, TARGET, CheckError, coqc, log, sh

PROGS = os.path.join(BUILD, "progs")

CARGO_TOML = """[package]
name = "{name}"
version = "0.1.0"
edition = "2021"

[dependencies]
bio-seq = {{ path = "{repo}/bio-seq", features = ["translation", "extra_codecs", "serde"] }}

[profile.release]
debug-assertions = false
overflow-checks = false

[workspace]
"""


def make_crate(name, main_rs):
    d = os.path.join(PROGS, name)
    shutil.rmtree(d, ignore_errors=True)
    os.makedirs(os.path.join(d, "src"))
    os.makedirs(os.path.join(d, ".cargo"))
    with open(os.path.join(d, "Cargo.toml"), "w") as f:
        f.write(CARGO_TOML.format(name=name, repo=REPO))
    with open(os.path.join(d, ".cargo", "config.toml"), "w") as f:
        f.write("[net]\noffline = true\n")
    lock = os.path.join(REPO, "Cargo.lock")
    if os.path.exists(lock):
        shutil.copyfile(lock, os.path.join(d, "Cargo.lock"))
    with open(os.path.join(d, "src", "main.rs"), "w") as f:
        f.write(main_rs)
    return d


def build_run(d, name, profile):
    """-> (ok, stdout or diagnostics json lines)"""
    cmd = ["cargo", "build", "--offline", "-q", "--message-format=json"]
    if profile == "release":
        cmd.append("--release")
    p = sh(cmd, cwd=d, timeout=1500, check=False)
    diags = []
    for line in p.stdout.splitlines():
        try:
            m = json.loads(line)
        except ValueError:
            continue
        if m.get("reason") == "compiler-message" and m["message"].get("level") == "error":
            msg = m["message"]
            spans = [s for s in msg.get("spans", []) if s.get("is_primary")]
            # for macro errors the primary span may be inside the expansion: walk to the call site
            lines = set()
            for s in msg.get("spans", []):
                cur = s
                while cur:
                    if cur.get("file_name", "").endswith("src/main.rs"):
                        lines.add(cur["line_start"])
                    exp = cur.get("expansion")
                    cur = exp.get("span") if exp else None
            diags.append({"message": msg.get("message", ""), "lines": sorted(lines)})
    if p.returncode != 0:
        return False, diags, p.stderr[-3000:]
    binp = os.path.join(TARGET, "debug" if profile == "dev" else "release", name)
    r = sh([binp], timeout=600, check=False)
    if r.returncode != 0:
        return False, [{"message": "program failed at run time: " + r.stderr[-1500:], "lines": []}], r.stderr[-1500:]
    return True, r.stdout, ""


# ---------------------------------------------------------------- C16: literal macros
DUMP_FNS = r'''
use bio_seq::prelude::*;
use std::hash::{Hash, Hasher};
struct Rec(Vec<u8>);
impl Hasher for Rec { fn finish(&self) -> u64 { 0 } fn write(&mut self, b: &[u8]) { self.0.extend_from_slice(b) } }
fn feed<T: Hash + ?Sized>(t: &T) -> Vec<u8> { let mut r = Rec(vec![]); t.hash(&mut r); r.0 }
fn codes<A: Codec>(s: &SeqSlice<A>) -> String { s.iter().map(|x| x.to_bits().to_string()).collect::<Vec<_>>().join(" ") }
fn lit<A: Codec>(id: usize, s: &SeqSlice<A>, text: &str) {
    // value of the literal, and its agreement with parsing the same text at run time
    let rt = Seq::<A>::try_from(text);
    let (eq, heq, deq) = match &rt {
        Ok(r) => ((s == r.as_ref()) as u8, (feed(s) == feed(r.as_ref())) as u8, (s.to_string() == r.to_string()) as u8),
        Err(_) => (2, 2, 2),
    };
    println!("L {} {} | {} | {} | {} {} {}", id, s.len(), codes(s),
             s.to_string().bytes().map(|b| b.to_string()).collect::<Vec<_>>().join(" "), eq, heq, deq);
}
'''


def gen_literals(rng, tier):
    """valid literals: (macro, text)"""
    out = []
    dna = "ACGT"
    iup = "ACGTRYSWKMBDHVN-"
    lens = sorted(set(list(range(0, 40)) + [63, 64, 65, 70, 127, 128, 129, 191, 192, 193, 200, 257]))
    for n in lens:
        out.append(("dna", "".join(rng.choice(dna) for _ in range(n))))
    for n in sorted(set(list(range(0, 20)) + [31, 32, 33, 47, 48, 49, 64, 65, 100, 129])):
        out.append(("iupac", "".join(rng.choice(iup) for _ in range(n))))
    # long literals (the macro may treat them differently); the last symbols are never the zero code,
    # and the bit lengths are not multiples of 8, 32 or 64
    for n in (511, 513, 515, 1001, 1030):
        out.append(("dna", "".join(rng.choice(dna) for _ in range(n - 3)) + "".join(rng.choice("CGT") for _ in range(3))))
    for n in (255, 257, 301, 513):
        out.append(("iupac", "".join(rng.choice(iup) for _ in range(n - 2)) + "".join(rng.choice(iup[:15]) for _ in range(2))))
    for c in dna:
        out.append(("dna", c * 33))
    for c in iup:
        out.append(("iupac", c * 17))
    # (the macro also spells the gap as X while the runtime parser does not: outside both halves of the
    # property, so no literal with X is compiled - a maintainer may align the two either way)
    for n in list(range(1, 33)):
        out.append(("kmer", "".join(rng.choice(dna) for _ in range(n))))
    for n in (1, 2, 31, 32):
        out.append(("kmer64", "".join(rng.choice(dna) for _ in range(n))))
    for n in (1, 31, 32, 33, 40, 63, 64):
        out.append(("kmer128", "".join(rng.choice("CGT") for _ in range(n))))
    if tier == "thorough":
        for _ in range(300):
            out.append(("dna", "".join(rng.choice(dna) for _ in range(rng.randint(0, 300)))))
            out.append(("iupac", "".join(rng.choice(iup) for _ in range(rng.randint(0, 200)))))
    return out


def literal_program(lits):
    body = [DUMP_FNS, "fn main() {"]
    for i, (m, t) in enumerate(lits):
        if m == "dna":
            body.append('    lit::<Dna>(%d, dna!("%s"), "%s");' % (i, t, t))
        elif m == "iupac":
            body.append('    lit::<Iupac>(%d, iupac!("%s"), "%s");' % (i, t, t))
        else:
            st = {"kmer": "", "kmer64": ", u64", "kmer128": ", u128"}[m]
            ty = {"kmer": "usize", "kmer64": "u64", "kmer128": "u128"}[m]
            body.append('    {{ let k = kmer!("{t}"{st}); let s: Seq<Dna> = "{t}".try_into().unwrap(); '
                        'let kk: Kmer<Dna, {n}, {ty}> = Kmer::try_from(s.as_ref()).unwrap(); '
                        'println!("K {i} {n} {{}} {{}} {{}} {{}} {{}}", (k.bs as u128) & 0xFFFF_FFFF_FFFF_FFFF, (k.bs as u128) >> 64, '
                        '(k == kk) as u8, (feed(&k) == feed(s.as_ref())) as u8, '
                        '(k.to_string() == "{t}") as u8); }}'.format(t=t, n=len(t), i=i, st=st, ty=ty))
    body.append("}")
    return "\n".join(body) + "\n"


def gen_bad_literals(rng):
    """one offending character per literal: lower case, N/U/X in dna!, digits, whitespace, multi-byte"""
    bad = []
    dna_bad = list("acgtNUXnRY0 9\t-") + ["é", "€", "\U0001F600", "Ł", "ɇ"]
    iup_bad = list("acgtUuZ0 9\tJ") + ["é", "€", "Ł"]
    for ch in dna_bad:
        for pos in ("first", "mid", "last"):
            base = "".join(rng.choice("ACGT") for _ in range(rng.choice([2, 5, 33])))
            i = {"first": 0, "mid": len(base) // 2, "last": len(base)}[pos]
            bad.append(("dna", base[:i] + ch + base[i:]))
    for ch in iup_bad:
        base = "".join(rng.choice("ACGTRYN") for _ in range(7))
        i = rng.randint(0, 7)
        bad.append(("iupac", base[:i] + ch + base[i:]))
    return bad


def rust_str(t):
    return "".join(c if 32 <= ord(c) < 127 and c not in '"\\' else "\\u{%x}" % ord(c) for c in t)


def bad_literal_program(bad, good):
    """each item on its own line; good items interleaved must produce no error"""
    lines = ["use bio_seq::prelude::*;", "fn main() {"]
    line_of = {}
    for i, (m, t) in enumerate(bad):
        lines.append('    let _b%d = %s!("%s");' % (i, m, rust_str(t)))
        line_of[("bad", i)] = len(lines)
        if i < len(good):
            gm, gt = good[i]
            lines.append('    let _g%d = %s!("%s");' % (i, gm if gm != "kmer" else "dna", gt))
            line_of[("good", i)] = len(lines)
    lines.append("}")
    return "\n".join(lines) + "\n", line_of


# ---------------------------------------------------------------- C17: derived codecs
ENUM_DUMP = r'''
use bio_seq::prelude::*;
fn opt(v: Option<u8>) -> String { match v { Some(x) => x.to_string(), None => "-".to_string() } }
fn guard<T>(f: impl FnOnce() -> T) -> Option<T> { std::panic::catch_unwind(std::panic::AssertUnwindSafe(f)).ok() }
fn dump<A: Codec>(name: &str) {
    println!("codec {}", name);
    println!("bits {}", A::BITS);
    println!("has_comp 0"); println!("has_mask 0");
    println!("items {}", A::items().map(|x| x.to_bits().to_string()).collect::<Vec<_>>().join(" "));
    let all = 0u16..=255;
    println!("try_bits {}", all.clone().map(|b| opt(guard(|| A::try_from_bits(b as u8).map(|s| s.to_bits())).flatten())).collect::<Vec<_>>().join(" "));
    println!("un_bits {}", all.clone().map(|b| opt(guard(|| A::unsafe_from_bits(b as u8).to_bits()))).collect::<Vec<_>>().join(" "));
    println!("try_ascii {}", all.clone().map(|b| opt(guard(|| A::try_from_ascii(b as u8).map(|s| s.to_bits())).flatten())).collect::<Vec<_>>().join(" "));
    println!("un_ascii {}", all.clone().map(|b| opt(guard(|| A::unsafe_from_ascii(b as u8).to_bits()))).collect::<Vec<_>>().join(" "));
    println!("char {}", all.clone().map(|b| {
        match guard(|| A::try_from_bits(b as u8)).flatten() {
            Some(s) if s.to_bits() as u16 == b => match guard(|| s.to_char()) { Some(c) if (c as u32) < 256 => (c as u32).to_string(), _ => "-".to_string() },
            _ => "-".to_string(),
        }}).collect::<Vec<_>>().join(" "));
    let none = vec!["-"; 256].join(" ");
    println!("comp {}", none); println!("mask {}", none); println!("unmask {}", none);
    // a sequence over the derived codec obeys the same round-trip laws: parse(display(items)) displays the same
    let text: String = A::items().map(|x| x.to_char()).collect();
    // every way of turning a sequence over the derived codec into text gives its display characters
    let rt = match Seq::<A>::try_from(text.as_str()) {
        Ok(s) => (s.to_string() == text && s.len() == text.len()
                  && format!("{}", s) == text && format!("{}", &s[..]) == text
                  && String::from(&s) == text && String::from(&s[..]) == text
                  && String::from(s.clone()) == text
                  && { let t: String = s.clone().into(); t == text }
                  && s.iter().map(|x| x.to_char()).collect::<String>() == text
                  && text.parse::<Seq<A>>().map(|p| p == s).unwrap_or(false)
                  && s[..] == text.as_str()) as u8,
        Err(_) => 0 };
    let mut r: Seq<A> = A::items().collect(); r.rev(); r.rev();
    let same = (r.to_string() == text) as u8;
    println!("roundtrip {} {}", rt, same);
    println!("end");
}
'''

NAMES = ["A", "B", "C", "D", "E", "F", "G", "H", "I", "J", "K", "L", "M", "N", "P", "Q", "R", "S", "T", "U", "V", "W",
         "X", "Y", "Z", "Aa", "Bb", "Cc", "Dd", "Ee", "Ff", "Gg", "Hh", "Ii", "Jj", "Kk", "Ll", "Mm", "Nn", "Pp", "Qq"]
DISPLAYS = list("*-.?!+=#@0123456789abcdefghijklmnopqrstuvwxyz")


def shadow_decl():
    """a variant with #[display] declared BEFORE a variant that shares its first letter and has none"""
    return {"name": None, "bits": None, "parsed_ok": True, "variants": [
        {"name": "A", "disc": 0, "disc_kind": "int", "alts": [], "display": None, "fmt": "dec"},
        {"name": "Stop", "disc": 1, "disc_kind": "int", "alts": [], "display": ord("*"), "fmt": "dec"},
        {"name": "Ser", "disc": 2, "disc_kind": "int", "alts": [7], "display": None, "fmt": "bin"},
        {"name": "Gap", "disc": 5, "disc_kind": "int", "alts": [], "display": ord("-"), "fmt": "hex"},
        {"name": "G", "disc": 3, "disc_kind": "int", "alts": [], "display": None, "fmt": "dec"},
    ]}


def gen_decl(rng, force_max=None):
    """a well-formed enum declaration as a dict compatible with decls.decl_coq"""
    nv = rng.choice([2, 2, 3, 4, 5, 8, 16, 21, 32, 40])
    maxd = force_max if force_max is not None else rng.choice([1, 3, 7, 15, 31, 63, 100, 127, 128, 200, 254, 255,
                                                                 rng.randint(1, 255)])
    maxd = max(maxd, nv - 1)
    pool = list(range(0, maxd + 1))
    rng.shuffle(pool)
    discs = pool[:nv]
    if maxd not in discs:
        discs[rng.randrange(nv)] = maxd
    rest = [x for x in range(256) if x not in discs]
    rng.shuffle(rest)
    used_chars = set()
    variants = []
    names = rng.sample(NAMES, nv)
    for i in range(nv):
        v = {"name": names[i], "disc": discs[i], "disc_kind": rng.choice(["int", "int", "int", "byte"]),
             "alts": [], "display": None, "fmt": rng.choice(["dec", "bin", "hex"])}
        if v["disc_kind"] == "byte" and not (33 <= discs[i] < 127 and chr(discs[i]) not in "'\\"):
            v["disc_kind"] = "int"
        na = rng.choice([0, 0, 0, 1, 2, 3])
        for _ in range(na):
            if rest:
                v["alts"].append(rest.pop())
        ch = ord(names[i][0])
        if rng.random() < 0.4 or ch in used_chars:
            cands = [ord(c) for c in DISPLAYS if ord(c) not in used_chars]
            ch = rng.choice(cands)
            v["display"] = ch
        used_chars.add(ch)
        variants.append(v)
    need = max(1, maxd.bit_length())
    bits = rng.choice([None, None, need, min(8, need + 1), 8])
    return {"name": None, "bits": bits, "variants": variants, "parsed_ok": True}


def decl_rust(d, name):
    def lit(v):
        if v["disc_kind"] == "byte":
            return "b'%s'" % chr(v["disc"])
        fmt = v.get("fmt", "dec")
        if fmt == "bin":
            return "0b" + format(v["disc"], "b")
        if fmt == "hex":
            return "0x%X" % v["disc"]
        return str(v["disc"])
    out = ["#[derive(Clone, Copy, Debug, PartialEq, Eq, Hash, Codec)]"]
    if d["bits"] is not None:
        out.append("#[bits(%d)]" % d["bits"])
    out.append("#[repr(u8)]")
    out.append("#[allow(dead_code, non_camel_case_types)]")
    out.append("pub enum %s {" % name)
    for v in d["variants"]:
        if v["display"] is not None:
            c = chr(v["display"])
            out.append("    #[display('%s')]" % ("\\'" if c == "'" else c))
        if v["alts"]:
            # the alternatives of a variant may be listed in one attribute or spread over several, in
            # any literal form
            def alit(a, k):
                return [str(a), "0b" + format(a, "b"), "0x%X" % a][(a + k) % 3]
            al = v["alts"]
            if len(al) >= 2 and (v["disc"] + len(al)) % 2 == 0:
                cut = 1 + (v["disc"] % (len(al) - 1))
                groups = [al[:cut], al[cut:]]
            else:
                groups = [al]
            for g in groups:
                out.append("    #[alt(%s)]" % ", ".join(alit(a, v["disc"]) for a in g))
        out.append("    %s = %s," % (v["name"], lit(v)))
    out.append("}")
    return "\n".join(out)


def enum_program(decls):
    body = [ENUM_DUMP]
    for i, d in enumerate(decls):
        body.append(decl_rust(d, "E%d" % i))
    body.append("fn main() {")
    for i in range(len(decls)):
        body.append('    dump::<E%d>("E%d");' % (i, i))
    body.append("}")
    return "\n".join(body) + "\n"


def bad_enum_program():
    """malformed declarations, each must be rejected at its own lines; interleaved good ones are not"""
    items = [
        ("non-enum", "#[derive(Codec)]\nstruct S0 { a: () }"),
        ("good", "#[derive(Clone, Copy, Debug, PartialEq, Eq, Hash, Codec)]\nenum G0 { A = 0, C = 1 }"),
        ("missing discriminant", "#[derive(Clone, Copy, Debug, PartialEq, Eq, Hash, Codec)]\nenum M0 { A, C = 1 }"),
        ("good", "#[derive(Clone, Copy, Debug, PartialEq, Eq, Hash, Codec)]\n#[bits(3)]\nenum G1 { A = 0, C = 5 }"),
        ("width too small", "#[derive(Clone, Copy, Debug, PartialEq, Eq, Hash, Codec)]\n#[bits(2)]\nenum W0 { A = 0, C = 4 }"),
        ("width too small at 255", "#[derive(Clone, Copy, Debug, PartialEq, Eq, Hash, Codec)]\n#[bits(7)]\nenum W1 { A = 0, C = 255 }"),
        ("good", "#[derive(Clone, Copy, Debug, PartialEq, Eq, Hash, Codec)]\n#[bits(8)]\nenum G2 { A = 0, C = 255 }"),
        ("non-integer discriminant", "#[derive(Clone, Copy, Debug, PartialEq, Eq, Hash, Codec)]\nenum F0 { A = 0, C = 1.0 }"),
        ("missing discriminant (all)", "#[derive(Clone, Copy, Debug, PartialEq, Eq, Hash, Codec)]\nenum M1 { A, C, G, T }"),
    ]
    lines = ["use bio_seq::prelude::*;"]
    spans = []
    for kind, src in items:
        start = len(lines) + 1
        lines += src.split("\n")
        spans.append((kind, start, len(lines)))
    lines.append("fn main() {}")
    return "\n".join(lines) + "\n", spans


def parse_enum_dump(stdout):
    """-> {name: table dict like common.dump_tables codec entries, plus 'roundtrip'}"""
    out = {}
    cur = None
    for line in stdout.splitlines():
        parts = line.split()
        if not parts:
            continue
        key, vals = parts[0], parts[1:]
        if key == "codec":
            cur = {}
            out[vals[0]] = cur
        elif key == "end":
            cur = None
        elif cur is not None:
            if key in ("bits", "has_comp", "has_mask"):
                cur[key] = int(vals[0])
            elif key == "items":
                cur[key] = [int(v) for v in vals]
            elif key == "roundtrip":
                cur[key] = [int(v) for v in vals]
            else:
                cur[key] = [None if v == "-" else int(v) for v in vals]
    return out
