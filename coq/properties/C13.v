(* C13 — standard DNA->amino translation is the standard genetic code for every codon.
   64 codons: complete enumeration on the regenerated dump against NCBI table 1 (Spec.ncbi1);
   independence of the position: the model reads only the six bits of the slice, and windows /
   chunks hand out exactly the triplets (C11). *)
From Coq Require Import List NArith Bool Arith.
From BioSeq Require Import Bits Codec Tables Spec SeqModel SeqProofs IterProofs Translate History.
Import ListNotations.

Theorem C13_standard_table_is_ncbi1 : forall (amino : codec) (tab : list (option N)),
  std_dna_check amino tab = true -> std_dna_spec amino tab.
Proof. exact std_dna_check_sound. Qed.

(* the model of to_amino on any 3-base codon, wherever it sits in a longer sequence *)
Theorem C13_to_amino_reads_the_codon : forall (C : codec), codec_ok C -> c_bits C = 2 ->
  forall (amino : codec) (c0 c1 c2 : N), (c0 < 4)%N -> (c1 < 4)%N -> (c2 < 4)%N ->
  to_amino C amino (encode (c_bits C) [c0; c1; c2]) = un_bits amino (c0 + 4 * c1 + 16 * c2)%N.
Proof. exact to_amino_codon. Qed.

Theorem C13_wrong_length_refused : forall (C : codec), codec_ok C -> forall (amino : codec) (xs : list N),
  length xs <> 3 -> to_amino C amino (encode (c_bits C) xs) = None.
Proof. exact to_amino_wrong_length. Qed.

(* translating by windows / chunks of three hands to_amino exactly the triplets i..i+3 / 3k..3k+3 *)
Theorem C13_windows_of_three : forall (C : codec), codec_ok C -> forall xs : list N,
  windows C (encode (c_bits C) xs) 3 =
  Some (Done (map (fun i => encode (c_bits C) (sub xs i 3)) (seq 0 (length xs + 1 - 3)))).
Proof. intros C OK xs. apply (windows_spec C OK xs 3). repeat constructor. Qed.

Theorem C13_chunks_of_three : forall (C : codec), codec_ok C -> forall xs : list N,
  chunks_of C (encode (c_bits C) xs) 3 =
  Some (Done (map (fun k => encode (c_bits C) (sub xs (k * 3) 3)) (seq 0 (length xs / 3)))).
Proof. intros C OK xs. apply (chunks_spec_seq C OK xs 3). repeat constructor. Qed.

(* consequently: translating ANY DNA sequence by windows of three gives, position by position, the
   table entry of the corresponding triplet *)
Theorem C13_windows_translate_positionwise : forall (C : codec), codec_ok C -> c_bits C = 2 ->
  forall (amino : codec) (xs : list N), Forall (fun x => (x < 4)%N) xs ->
  exists ws, windows C (encode (c_bits C) xs) 3 = Some (Done ws) /\
             mapM (to_amino C amino) ws =
             mapM (fun i => un_bits amino (codon_value xs i)) (seq 0 (length xs + 1 - 3)).
Proof. exact windows_translate. Qed.

Print Assumptions C13_standard_table_is_ncbi1.
Print Assumptions C13_to_amino_reads_the_codon.
Print Assumptions C13_wrong_length_refused.
Print Assumptions C13_windows_of_three.
Print Assumptions C13_chunks_of_three.
Print Assumptions C13_windows_translate_positionwise.
