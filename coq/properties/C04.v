(* C04 — documented little-endian packing: symbol i lives at bits [i*BITS, (i+1)*BITS). *)
From Coq Require Import List NArith Bool Arith.
From BioSeq Require Import Bits Codec SeqModel SeqProofs SeqProofs2 KmerModel KmerProofs.
Import ListNotations.

(* the integer of an encoded sequence is sum code_i * 2^(i*BITS) (pack = little-endian digits) *)
Theorem C04_packing : forall (k : nat) (xs : list N),
  Forall (small k) xs -> of_bits (encode k xs) = pack (2 ^ N.of_nat k) xs.
Proof. exact of_bits_encode. Qed.

Example C04_pack_unfolds : forall Bs x y z, pack Bs [x; y; z] = (x + Bs * (y + Bs * (z + Bs * 0)))%N.
Proof. reflexivity. Qed.

(* conversion of a slice: that integer when it fits in one word; longer slices are refused with an
   error, never truncated; (the empty slice panics inside bitvec, the property says non-empty) *)
Theorem C04_slice_to_integer : forall (C : codec), codec_ok C -> forall xs : list N,
  Forall (smallc C) xs ->
  to_usize C (encode (c_bits C) xs) =
    if c_bits C * length xs <=? 64
    then (if 1 <=? c_bits C * length xs
          then Some (UOk (pack (2 ^ N.of_nat (c_bits C)) xs)) else None)
    else Some (UTooLong (length xs) (64 / c_bits C)).
Proof. exact to_usize_spec. Qed.

(* the integer determines the symbols *)
Theorem C04_integer_determines_symbols : forall (C : codec), codec_ok C -> forall xs ys : list N,
  length xs = length ys -> Forall (smallc C) xs -> Forall (smallc C) ys ->
  pack (2 ^ N.of_nat (c_bits C)) xs = pack (2 ^ N.of_nat (c_bits C)) ys -> xs = ys.
Proof. exact pack_digits_unique. Qed.

(* k-mers: the storage integer of the k-mer with symbols xs is that sum, it is canonical
   (< 2^(K*BITS)), and decoding it displays exactly those symbols *)
Theorem C04_kmer_value : forall (C : codec) (xs : list N),
  Forall (smallc C) xs -> kval C xs = pack (2 ^ N.of_nat (c_bits C)) xs.
Proof. exact kval_pack. Qed.

Theorem C04_kmer_value_canonical : forall (C : codec), codec_ok C ->
  forall (K W : nat), 1 <= K -> K * c_bits C <= W -> forall xs : list N,
  length xs = K -> (kval C xs < 2 ^ N.of_nat (K * c_bits C))%N.
Proof. exact kval_canonical. Qed.

Theorem C04_kmer_decodes_to_symbols : forall (C : codec), codec_ok C ->
  forall (K W : nat), 1 <= K -> K * c_bits C <= W -> forall xs : list N,
  length xs = K -> Forall (smallc C) xs -> canonl C xs ->
  kdisplay C K W (kval C xs) = mapM (char_of C) xs.
Proof. exact kdisplay_spec. Qed.

(* rebuilding from a word image: nothing when the image does not hold that many symbols ... *)
Theorem C04_from_raw : forall (C : codec) (n : nat) (ws : list N),
  from_raw C n ws =
    if 64 * length ws <? n * c_bits C then None
    else Some (firstn (n * c_bits C) (words_bits ws)).
Proof. exact from_raw_spec. Qed.

(* ... and an equal sequence when the image holds the sequence at bit 0 of word 0 *)
Theorem C04_from_raw_roundtrip : forall (C : codec), codec_ok C -> forall (xs ws : list N) (rest : bits),
  words_bits ws = encode (c_bits C) xs ++ rest ->
  from_raw C (length xs) ws = Some (encode (c_bits C) xs).
Proof. exact from_raw_roundtrip. Qed.

(* README table: the 5-mers of 2-bit DNA in integer order 0..15 are AAAAA CAAAA GAAAA TAAAA ... *)
Example C04_readme_table :
  map (fun v => to_bits 4 v) [0; 1; 2; 3; 4]%N =
  [encode 2 [0;0]; encode 2 [1;0]; encode 2 [2;0]; encode 2 [3;0]; encode 2 [0;1]]%N.
Proof. reflexivity. Qed.

Print Assumptions C04_packing.
Print Assumptions C04_slice_to_integer.
Print Assumptions C04_integer_determines_symbols.
Print Assumptions C04_kmer_value.
Print Assumptions C04_kmer_value_canonical.
Print Assumptions C04_kmer_decodes_to_symbols.
Print Assumptions C04_from_raw.
Print Assumptions C04_from_raw_roundtrip.
