(* C20 — soft-masking changes case only and commutes with complement and reverse.
   Symbol level: complete enumeration of both masked codecs on the regenerated tables.
   Sequence level: for every sequence of the codec's symbols, through the position-wise map
   theory of SymMap.v. *)
From Coq Require Import List NArith Bool.
From BioSeq Require Import Bits Codec Spec SeqModel SeqProofs SymMap C20Check.
Import ListNotations.

(* symbol level, 5-bit IUPAC: lower/upper-case forms, nucleotide set unchanged *)
Theorem C20_mask5_symbols : forall C : codec, mask5_okb C = true -> mask5_ok C.
Proof. exact mask5_okb_sound. Qed.

(* symbol level, 4-bit DNA: an involution toggling A,C,G,T,N, fixing gap and pad *)
Theorem C20_mask4_symbols : forall C : codec, mask4_okb C = true -> mask4_ok C.
Proof. exact mask4_okb_sound. Qed.

(* sequence level: each operation applies position-wise and preserves length *)
Theorem C20_mask_positionwise : forall (C : codec), codec_ok C ->
  closed_on_items C (mask_sym C) -> forall xs : list N, items_list C xs ->
  seq_mask C (encode (c_bits C) xs) = Some (encode (c_bits C) (map (total (mask_sym C)) xs)).
Proof. intros C OK Hc xs. exact (map_syms_items C OK (mask_sym C) xs Hc). Qed.

Theorem C20_unmask_positionwise : forall (C : codec), codec_ok C ->
  closed_on_items C (unmask_sym C) -> forall xs : list N, items_list C xs ->
  seq_unmask C (encode (c_bits C) xs) = Some (encode (c_bits C) (map (total (unmask_sym C)) xs)).
Proof. intros C OK Hc xs. exact (map_syms_items C OK (unmask_sym C) xs Hc). Qed.

(* g after f is h at sequence level whenever it is so on the symbols: instantiated with
   mask;mask = mask, unmask;unmask = unmask, mask;unmask = unmask (5-bit) and mask;mask = id (4-bit) *)
Theorem C20_absorption_lifts : forall (C : codec), codec_ok C ->
  forall (f g h : N -> res N),
  closed_on_items C f -> closed_on_items C g -> closed_on_items C h ->
  agree_on_items C (fun x => total g (total f x)) (total h) ->
  forall xs : list N, items_list C xs ->
  (do s <- map_syms C f (encode (c_bits C) xs); map_syms C g s) = map_syms C h (encode (c_bits C) xs).
Proof. intros C OK f g h Hf Hg Hh Ha xs. exact (map_syms_absorb C OK f g h xs Hf Hg Hh Ha). Qed.

(* masking commutes with complement ... *)
Theorem C20_commutes_with_complement : forall (C : codec), codec_ok C ->
  forall (f g : N -> res N), closed_on_items C f -> closed_on_items C g ->
  agree_on_items C (fun x => total g (total f x)) (fun x => total f (total g x)) ->
  forall xs : list N, items_list C xs ->
  (do s <- map_syms C f (encode (c_bits C) xs); map_syms C g s) =
  (do s <- map_syms C g (encode (c_bits C) xs); map_syms C f s).
Proof. intros C OK f g Hf Hg Ha xs. exact (map_syms_commute C OK f g xs Hf Hg Ha). Qed.

(* ... and with reverse *)
Theorem C20_commutes_with_reverse : forall (C : codec), codec_ok C ->
  forall (f : N -> res N), closed_on_items C f -> forall xs : list N, items_list C xs ->
  (do s <- map_syms C f (encode (c_bits C) xs); Some (seq_rev C s)) =
  map_syms C f (seq_rev C (encode (c_bits C) xs)).
Proof. intros C OK f Hf xs. exact (map_syms_rev_commute C OK f xs Hf). Qed.

Print Assumptions C20_mask5_symbols.
Print Assumptions C20_mask4_symbols.
Print Assumptions C20_mask_positionwise.
Print Assumptions C20_unmask_positionwise.
Print Assumptions C20_absorption_lifts.
Print Assumptions C20_commutes_with_complement.
Print Assumptions C20_commutes_with_reverse.
