(* C18 — serialization round trip preserves sequences and k-mers (PARTIAL: data-model level).
   What is proved: at the level of serde's data model of a BitVec (head, bit count, words) the round
   trip restores exactly the live bits for every head offset < 64 and any dead bits, so length,
   symbols, hash and display are preserved (they are functions of the live bits).  What the model
   cannot exhibit: the byte formats of bincode / serde_json and bitvec's own Deserialize validation
   (third-party); those are exercised, not proved, by the correspondence through both formats on
   sequences with zero and non-zero heads and on k-mers of all three storage types. *)
From Coq Require Import List NArith Bool Arith.
From BioSeq Require Import Bits SeqModel Serde.
Import ListNotations.

Theorem C18_sequence_roundtrip_partial : forall (pre live post : bits) (n : nat),
  length pre < 64 -> length (pre ++ live ++ post) = 64 * n ->
  de (ser pre live post) = Some live.
Proof. exact de_ser. Qed.

Theorem C18_kmer_roundtrip_partial : forall x : N, kde (kser x) = x.
Proof. exact kde_kser. Qed.

(* non-vacuity: a head offset of 2 with dirty dead bits *)
Example C18_head_two :
  de (ser [true; true] [false; true; true; false] (repeat true 58)) = Some [false; true; true; false].
Proof. reflexivity. Qed.

Print Assumptions C18_sequence_roundtrip_partial.
Print Assumptions C18_kmer_roundtrip_partial.
