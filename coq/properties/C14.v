(* C14 — ambiguous-codon translation is sound and complete; reverse translation is exact.
   Finite: all 16^3 IUPAC codons and all 21 amino symbols, enumerated completely in the kernel on
   the regenerated dumps of STANDARD.try_to_amino / try_to_codon, against NCBI table 1. *)
From Coq Require Import List NArith Bool Arith.
From BioSeq Require Import Bits Codec Tables Spec Translate.
Import ListNotations.

Theorem C14_ambiguous_translation_sound_and_complete : forall (amino : codec) (tab : list tres),
  std_iupac_check amino tab = true -> std_iupac_spec amino tab.
Proof. exact std_iupac_check_sound. Qed.

Theorem C14_reverse_translation_exact : forall (amino : codec) (tab : list (N * cres)),
  std_rev_check amino tab = true -> std_rev_spec amino tab.
Proof. exact std_rev_check_sound. Qed.

Check C14_ambiguous_translation_sound_and_complete : forall (amino : codec) (tab : list tres),
  std_iupac_check amino tab = true -> std_iupac_spec amino tab.

Print Assumptions C14_ambiguous_translation_sound_and_complete.
Print Assumptions C14_reverse_translation_exact.
