(* C15 — custom codon tables are faithful bidirectional maps, independent of map iteration
   order: for EVERY key-distinct entry list m and EVERY permutation l of m (= every possible
   HashMap iteration order). *)
From Coq Require Import List NArith Bool Arith Permutation.
From BioSeq Require Import CodonTable.
Import ListNotations.

(* reverse lookup: the unique codon; ambiguity for two or more; invalid amino acid for none *)
Theorem C15_reverse_lookup_order_independent :
  forall (K A : Type) (A_eqb : A -> A -> bool),
  (forall x y, reflect (x = y) (A_eqb x y)) ->
  forall (m l : list (K * A)) (a : A), Permutation m l ->
  match pre K A A_eqb a m with
  | [] => build K A A_eqb l a = None
  | [c] => build K A A_eqb l a = Some (Some c)
  | _ :: _ :: _ => build K A A_eqb l a = Some None
  end.
Proof. exact build_order_independent. Qed.

(* forward lookup: exactly the mapped amino acid when the codon is a key, nothing otherwise *)
Theorem C15_forward_lookup_order_independent :
  forall (K A : Type) (K_eqb : K -> K -> bool),
  (forall x y, reflect (x = y) (K_eqb x y)) ->
  forall (m l : list (K * A)) (k : K),
  NoDup (map fst m) -> Permutation m l -> lookup K A K_eqb l k = lookup K A K_eqb m k.
Proof. exact lookup_order_independent. Qed.

Theorem C15_forward_lookup_key : forall (K A : Type) (K_eqb : K -> K -> bool),
  (forall x y, reflect (x = y) (K_eqb x y)) ->
  forall (l : list (K * A)) (k : K) (a : A),
  NoDup (map fst l) -> In (k, a) l -> lookup K A K_eqb l k = Some a.
Proof. exact lookup_in. Qed.

Theorem C15_forward_lookup_non_key : forall (K A : Type) (K_eqb : K -> K -> bool),
  (forall x y, reflect (x = y) (K_eqb x y)) ->
  forall (l : list (K * A)) (k : K), ~ In k (map fst l) -> lookup K A K_eqb l k = None.
Proof. exact lookup_none. Qed.

(* non-vacuity: three codons for one amino acid are ambiguous in every order *)
Example C15_three_preimages :
  build nat nat Nat.eqb [(1, 7); (2, 7); (3, 7)] 7 = Some None /\
  build nat nat Nat.eqb [(3, 7); (1, 7); (2, 7)] 7 = Some None /\
  build nat nat Nat.eqb [(1, 7); (2, 8)] 7 = Some (Some 1) /\ build nat nat Nat.eqb [(1, 7)] 9 = None.
Proof. repeat split. Qed.

Print Assumptions C15_reverse_lookup_order_independent.
Print Assumptions C15_forward_lookup_order_independent.
Print Assumptions C15_forward_lookup_key.
Print Assumptions C15_forward_lookup_non_key.
