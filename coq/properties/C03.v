(* C03 — slicing and indexing select exactly the requested symbols, or refuse.
   For every codec with codec_ok, every sequence (as its code list xs) and every range. *)
From Coq Require Import List NArith Bool Arith.
From BioSeq Require Import Bits Codec Tables SeqModel SeqProofs VM Refine Nested.
Import ListNotations.

(* in bounds: exactly b-a symbols, the i-th being the parent's (a+i)-th *)
Theorem C03_range_in_bounds :
  forall (C : codec) (xs : list N) (a b : nat),
    a <= b -> b <= length xs ->
    index C (encode (c_bits C) xs) 0 a b =
      Some (encode (c_bits C) (firstn (b - a) (skipn a xs))).
Proof. exact index_range_in. Qed.

(* out of bounds or reversed: the indexing form panics *)
Theorem C03_range_out_of_bounds_panics :
  forall (C : codec), codec_ok C -> forall (xs : list N) (a b : nat),
    (b < a \/ length xs < b) -> index C (encode (c_bits C) xs) 0 a b = None.
Proof. exact index_range_out. Qed.

(* a..=b, ..b, ..=b, a.., .., [i] are instances of a..b *)
Theorem C03_all_range_forms :
  forall (C : codec) (xs : list N) (a b : nat),
  index C (encode (c_bits C) xs) 1 a b = index C (encode (c_bits C) xs) 0 a (b + 1) /\
  index C (encode (c_bits C) xs) 2 a b = index C (encode (c_bits C) xs) 0 0 b /\
  index C (encode (c_bits C) xs) 3 a b = index C (encode (c_bits C) xs) 0 0 (b + 1) /\
  (a <= length xs ->
     index C (encode (c_bits C) xs) 4 a b = index C (encode (c_bits C) xs) 0 a (length xs)) /\
  index C (encode (c_bits C) xs) 5 a b = index C (encode (c_bits C) xs) 0 0 (length xs) /\
  index C (encode (c_bits C) xs) 6 a b = index C (encode (c_bits C) xs) 0 a (a + 1).
Proof. exact index_forms. Qed.

Theorem C03_range_from_out_of_bounds_panics :
  forall (C : codec), codec_ok C -> forall (xs : list N) (a b : nat),
    length xs < a -> index C (encode (c_bits C) xs) 4 a b = None.
Proof. exact index_from_out. Qed.

(* re-slicing collapses, so any nesting depth is a single slice of the parent *)
Theorem C03_reslicing_collapses :
  forall (C : codec) (xs : list N) (a b c d : nat),
    a <= b -> b <= length xs -> c <= d -> d <= b - a ->
    (do t <- index C (encode (c_bits C) xs) 0 a b; index C t 0 c d) =
    index C (encode (c_bits C) xs) 0 (a + c) (a + d).
Proof. exact index_compose. Qed.

(* positional access: nth panics beyond the end, get returns nothing *)
Theorem C03_nth_in_bounds :
  forall (C : codec), codec_ok C -> forall (xs : list N) (i : nat),
    Forall (smallc C) xs -> i < length xs ->
    nth_sym C (encode (c_bits C) xs) i = un_bits C (nth i xs 0%N).
Proof. exact nth_sym_in. Qed.

Theorem C03_nth_beyond_end_panics :
  forall (C : codec), codec_ok C -> forall (xs : list N) (i : nat),
    length xs <= i -> nth_sym C (encode (c_bits C) xs) i = None.
Proof. exact nth_sym_out. Qed.

Theorem C03_get :
  forall (C : codec), codec_ok C -> forall (xs : list N) (i : nat),
    Forall (smallc C) xs ->
    get_sym C (encode (c_bits C) xs) i =
      if length xs <=? i then Some None else option_map Some (un_bits C (nth i xs 0%N)).
Proof. exact get_sym_spec. Qed.

Check C03_range_in_bounds :
  forall (C : codec) (xs : list N) (a b : nat),
    a <= b -> b <= length xs ->
    index C (encode (c_bits C) xs) 0 a b =
      Some (encode (c_bits C) (firstn (b - a) (skipn a xs))).

(* ... in ANY history: whatever a script did before (edits, copies, reversals, ...), as long as the
   list-of-symbols machine tracks it ([abs]), a nest of ranges that leaves the sequence at some
   level makes every observation or copy of that slice panic, in both build profiles *)
Theorem C03_out_of_bounds_slice_panics_in_any_history :
  forall (C : codec) (dbg : bool), codec_ok C ->
  forall (cvi cvt : N -> res N) (ic tc ac : codec) (stdt : list tres) (stdc : list (N * cres))
         (st : state) (l : lstate) (r : N) (rs : list (N * N * N)) (xs : list N),
  abs C st l -> lget l r = Some xs -> forms_ok rs = true -> lapply xs rs = None ->
  let d := SD r rs in
  let stepv := step C dbg cvi cvt ic tc ac stdt stdc st in
  stepv (OCodes d) = None /\ stepv (OLen d) = None /\ stepv (ODisplay d) = None /\
  stepv (OToOwned d) = None /\ stepv (ORevIter d) = None /\
  (forall i, stepv (ONth d i) = None) /\ (forall i, stepv (OGet d i) = None) /\
  (forall w, stepv (OWindows d w) = None) /\ (forall w, stepv (OChunks d w) = None) /\
  stepv (OToUsize d) = None /\ stepv (OToRev d) = None.
Proof. exact out_of_bounds_observation_panics. Qed.

(* ... and positional access at or beyond the end of any slice reached in any history: the indexing
   form panics, the optional accessor answers None (observation [0]) *)
Theorem C03_access_beyond_end_in_any_history :
  forall (C : codec) (dbg : bool), codec_ok C ->
  forall (cvi cvt : N -> res N) (ic tc ac : codec) (stdt : list tres) (stdc : list (N * cres))
         (st : state) (l : lstate) (d : sd) (xs : list N) (i : N),
  abs C st l -> lslice l d = Some xs -> length xs <= N.to_nat i ->
  step C dbg cvi cvt ic tc ac stdt stdc st (ONth d i) = None /\
  exists st', step C dbg cvi cvt ic tc ac stdt stdc st (OGet d i) = Some st' /\
              out st' = [0%N] :: out st.
Proof. exact nth_beyond_end_panics. Qed.

(* ... and a nest of ranges of ANY depth, mixing the seven range forms freely, reached in ANY
   history, denotes ONE window of the parent: its offset is the sum of the starts chosen at each
   level ([loffset]), the slice is the packing of exactly those symbols, symbol i of the slice is
   symbol o + i of the parent, and it is refused exactly when some level leaves its parent *)
Theorem C03_nested_ranges_one_window_in_any_history :
  forall (C : codec) (st : state) (l : lstate) (r : N) (rs : list (N * N * N)) (xs ys : list N),
  abs C st l -> lget l r = Some xs -> lapply xs rs = Some ys ->
  exists o w, loffset (length xs) rs = Some (o, w) /\ o + w <= length xs /\
              slice_of C st (SD r rs) = Some (encode (c_bits C) (firstn w (skipn o xs))) /\
              forall i, i < w -> nth i ys 0%N = nth (o + i) xs 0%N.
Proof. exact nested_slice_in_any_history. Qed.

Theorem C03_nested_ranges_refused_iff_some_level_leaves :
  forall (rs : list (N * N * N)) (xs : list N),
  lapply xs rs = None <-> loffset (length xs) rs = None.
Proof. exact nested_ranges_refused_iff. Qed.

Print Assumptions C03_range_in_bounds.
Print Assumptions C03_range_out_of_bounds_panics.
Print Assumptions C03_all_range_forms.
Print Assumptions C03_range_from_out_of_bounds_panics.
Print Assumptions C03_reslicing_collapses.
Print Assumptions C03_nth_in_bounds.
Print Assumptions C03_nth_beyond_end_panics.
Print Assumptions C03_get.
Print Assumptions C03_out_of_bounds_slice_panics_in_any_history.
Print Assumptions C03_access_beyond_end_in_any_history.
Print Assumptions C03_nested_ranges_one_window_in_any_history.
Print Assumptions C03_nested_ranges_refused_iff_some_level_leaves.
