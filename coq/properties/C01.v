(* C01 — text <-> packed sequence round trip is lossless; bad input is rejected exactly.
   For EVERY codec satisfying codec_ok (re-proved for the 7 built-ins on the regenerated tables in
   both profiles, and for every derived codec through C17) and EVERY byte string. *)
From Coq Require Import List NArith Bool.
From BioSeq Require Import Bits Codec SeqModel SeqProofs SeqProofs2.
Import ListNotations.

(* parsing succeeds exactly when every byte is a symbol character of the codec *)
Theorem C01_parse_succeeds_iff_all_bytes_valid :
  forall (C : codec) (l : list N),
    (exists s, parse C l = inl s) <-> (exists xs, mapM (try_ascii C) l = Some xs).
Proof. exact parse_succeeds_iff. Qed.

(* then: one symbol per byte, in order (length, forward iteration) *)
Theorem C01_parse_one_symbol_per_byte :
  forall (C : codec), codec_ok C -> forall (l xs : list N),
    mapM (try_ascii C) l = Some xs ->
    parse C l = inl (encode (c_bits C) xs) /\
    slen C (encode (c_bits C) xs) = length l /\
    iter C (encode (c_bits C) xs) = Some xs.
Proof. exact parse_symbols. Qed.

(* when any byte is not a symbol character, parsing fails and reports the FIRST such byte *)
Theorem C01_parse_reports_first_bad_byte :
  forall (C : codec) (pre : list N) (b : N) (post : list N),
    (exists xs, mapM (try_ascii C) pre = Some xs) -> try_ascii C b = None ->
    parse C (pre ++ b :: post) = inr b.
Proof. exact parse_first_bad. Qed.

(* the two cases are exhaustive *)
Theorem C01_parse_cases_exhaustive :
  forall (C : codec) (l : list N),
    (exists xs, mapM (try_ascii C) l = Some xs) \/
    (exists pre b post, l = pre ++ b :: post /\ (exists xs, mapM (try_ascii C) pre = Some xs) /\
                        try_ascii C b = None).
Proof. exact parse_cases. Qed.

(* display -> parse -> display is the identity on sequences of the codec's symbols *)
Theorem C01_display_parse_roundtrip :
  forall (C : codec), codec_ok C -> forall xs : list N,
    Forall (fun x => In x (c_items C)) xs ->
    exists d, display C (encode (c_bits C) xs) = Some d /\ parse C d = inl (encode (c_bits C) xs).
Proof. exact display_parse_display. Qed.

Check C01_parse_succeeds_iff_all_bytes_valid :
  forall (C : codec) (l : list N),
    (exists s, parse C l = inl s) <-> (exists xs, mapM (try_ascii C) l = Some xs).
Check C01_parse_reports_first_bad_byte :
  forall (C : codec) (pre : list N) (b : N) (post : list N),
    (exists xs, mapM (try_ascii C) pre = Some xs) -> try_ascii C b = None ->
    parse C (pre ++ b :: post) = inr b.

Print Assumptions C01_parse_succeeds_iff_all_bytes_valid.
Print Assumptions C01_parse_one_symbol_per_byte.
Print Assumptions C01_parse_reports_first_bad_byte.
Print Assumptions C01_parse_cases_exhaustive.
Print Assumptions C01_display_parse_roundtrip.
