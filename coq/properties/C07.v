(* C07 — reverse, complement and reverse-complement of sequences are exact and involutive.
   Sequence-level statements for EVERY codec with codec_ok and every sequence of its symbols; the
   symbol-level premises (complement maps items to items, and twice is the identity) are decided by
   complete enumeration of the regenerated tables (Inst_C07_<profile>.v). *)
From Coq Require Import List NArith Bool.
From BioSeq Require Import Bits Codec SeqModel SeqProofs SymMap.
Import ListNotations.

(* reversing yields the symbols in opposite order, each symbol intact *)
Theorem C07_reverse_exact : forall (C : codec), codec_ok C -> forall xs : list N,
  seq_rev C (encode (c_bits C) xs) = encode (c_bits C) (rev xs).
Proof. exact rev_spec. Qed.

Theorem C07_reverse_twice_restores : forall (C : codec), codec_ok C -> forall xs : list N,
  seq_rev C (seq_rev C (encode (c_bits C) xs)) = encode (c_bits C) xs.
Proof. exact rev_involutive_seq. Qed.

(* complementing replaces each symbol by its codec complement, in place *)
Theorem C07_complement_exact : forall (C : codec), codec_ok C ->
  closed_on_items C (comp_sym C) -> forall xs : list N, items_list C xs ->
  seq_comp C (encode (c_bits C) xs) = Some (encode (c_bits C) (map (total (comp_sym C)) xs)).
Proof. intros C OK Hc xs. exact (map_syms_items C OK (comp_sym C) xs Hc). Qed.

Theorem C07_complement_twice_restores : forall (C : codec), codec_ok C ->
  closed_on_items C (comp_sym C) ->
  agree_on_items C (fun x => total (comp_sym C) (total (comp_sym C) x)) (fun x => x) ->
  forall xs : list N, items_list C xs ->
  (do s <- seq_comp C (encode (c_bits C) xs); seq_comp C s) = Some (encode (c_bits C) xs).
Proof. intros C OK Hc Hi xs. exact (map_syms_involutive C OK (comp_sym C) xs Hc Hi). Qed.

(* reverse-complement is both at once ... *)
Theorem C07_revcomp_exact : forall (C : codec), codec_ok C ->
  closed_on_items C (comp_sym C) -> forall xs : list N, items_list C xs ->
  seq_revcomp C (encode (c_bits C) xs) =
    Some (encode (c_bits C) (rev (map (total (comp_sym C)) xs))).
Proof. intros C OK Hc xs. exact (revcomp_spec C OK xs Hc). Qed.

(* ... equals either order of composition ... *)
Theorem C07_revcomp_either_order : forall (C : codec), codec_ok C ->
  closed_on_items C (comp_sym C) -> forall xs : list N, items_list C xs ->
  seq_revcomp C (encode (c_bits C) xs) = seq_comp C (seq_rev C (encode (c_bits C) xs)).
Proof. intros C OK Hc xs. exact (revcomp_either_order C OK xs Hc). Qed.

(* ... and applying it twice restores the original *)
Theorem C07_revcomp_twice_restores : forall (C : codec), codec_ok C ->
  closed_on_items C (comp_sym C) ->
  agree_on_items C (fun x => total (comp_sym C) (total (comp_sym C) x)) (fun x => x) ->
  forall xs : list N, items_list C xs ->
  (do s <- seq_revcomp C (encode (c_bits C) xs); seq_revcomp C s) = Some (encode (c_bits C) xs).
Proof. intros C OK Hc Hi xs. exact (revcomp_involutive C OK xs Hc Hi). Qed.

Check C07_reverse_exact : forall (C : codec), codec_ok C -> forall xs : list N,
  seq_rev C (encode (c_bits C) xs) = encode (c_bits C) (rev xs).

Print Assumptions C07_reverse_exact.
Print Assumptions C07_reverse_twice_restores.
Print Assumptions C07_complement_exact.
Print Assumptions C07_complement_twice_restores.
Print Assumptions C07_revcomp_exact.
Print Assumptions C07_revcomp_either_order.
Print Assumptions C07_revcomp_twice_restores.
