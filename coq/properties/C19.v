(* C19 — cross-codec conversion and trimming preserve the underlying bases. *)
From Coq Require Import List NArith Bool Arith.
From BioSeq Require Import Bits Codec SeqModel SeqProofs SeqProofs2 IupacProofs History.
Import ListNotations.

(* trimming parses the span between the first and the last acceptable byte (definitionally) ... *)
Theorem C19_trim_is_parse_of_span : forall (C : codec) (v : list N),
  trim C v =
    let start := match position C v with Some p => p | None => length v end in
    let rest := skipn start v in
    let stop := match rposition C rest with Some p => start + p + 1 | None => start end in
    parse C (firstn (stop - start) rest).
Proof. exact trim_is_parse_of_span. Qed.

(* ... so leading and trailing unacceptable bytes never matter: it equals STRICT parsing of the
   core (hence an interior bad byte is the error strict parsing reports, by C01) ... *)
Theorem C19_trim_strips_ends : forall (C : codec) (lead core tail : list N) (f : N) (s : list N)
    (l : N) (sl : list N),
  Forall (fun b => try_ascii C b = None) lead ->
  Forall (fun b => try_ascii C b = None) tail ->
  core = f :: s -> try_ascii C f <> None ->
  rev core = l :: sl -> try_ascii C l <> None ->
  trim C (lead ++ core ++ tail) = parse C core.
Proof. exact trim_strips_ends. Qed.

(* ... and an input with no acceptable byte gives the empty sequence *)
Theorem C19_trim_all_bad_is_empty : forall (C : codec) (v : list N),
  Forall (fun b => try_ascii C b = None) v -> trim C v = inl [].
Proof. exact trim_all_bad. Qed.

(* conversion of a sequence or slice to another codec is the symbol conversion applied position
   by position: same length; that the converted symbol displays as the same letter is a table fact
   re-proved on every run (Dna -> Iupac, Dna -> text) *)
Theorem C19_conversion_is_map : forall (C : codec), codec_ok C ->
  forall (f : N -> res N) (g : N -> N) (B' : nat) (xs : list N),
  Forall (smallc C) xs -> canonl C xs -> (forall x, In x xs -> f x = Some (g x)) ->
  convert C f B' (encode (c_bits C) xs) = Some (encode B' (map g xs)).
Proof. exact convert_spec. Qed.

Print Assumptions C19_trim_is_parse_of_span.
Print Assumptions C19_trim_strips_ends.
Print Assumptions C19_trim_all_bad_is_empty.
Print Assumptions C19_conversion_is_map.
