(* C16 — compile-time literals equal runtime parsing; invalid literals do not compile.
   The macro is modelled by its regenerated per-character table (every 1-character ASCII literal
   through the real dna_seq / iupac_seq) plus the fold of seqarray.rs; the theorems hold for EVERY
   literal (byte string), for any table that agrees with the runtime decoder (decided on the
   regenerated tables on every run).  That "CompileError" in the model means rustc rejects the
   program is observed by the generated-crate correspondence (partial: rustc is trusted). *)
From Coq Require Import List NArith Bool.
From BioSeq Require Import Bits Codec SeqModel SeqProofs SeqProofs2 Macro.
Import ListNotations.

(* for every string the runtime parser accepts, the literal has the same length and the same bits
   (hence the same symbols, display and hasher feed: these are functions of the bits) *)
Theorem C16_literal_equals_runtime_parse :
  forall (C : codec) (t : mtab) (l xs : list N),
  macro_agrees C t -> mapM (try_ascii C) l = Some xs ->
  literal t l = Some (length l, encode (c_bits C) xs).
Proof. exact literal_equals_runtime_parse. Qed.

(* the &'static SeqSlice obtained from the SeqArray is the parsed sequence, for every length
   including 0 and lengths at machine-word boundaries *)
Theorem C16_deref_equals_runtime_parse :
  forall (C : codec) (t : mtab) (l xs : list N),
  macro_agrees C t -> mapM (try_ascii C) l = Some xs ->
  option_map (seqarray_deref (c_bits C)) (literal t l) = Some (encode (c_bits C) xs).
Proof. exact literal_deref_equals_runtime_parse. Qed.

(* any non-ASCII character: compile-time error *)
Theorem C16_non_ascii_rejected : forall (t : mtab) (l : list N),
  is_ascii l = false -> literal t l = None.
Proof. exact literal_non_ascii_rejected. Qed.

(* any character outside the macro's alphabet, at any position: compile-time error *)
Theorem C16_bad_character_rejected : forall (t : mtab) (pre : list N) (c : N) (post : list N),
  macro_char t c = None -> literal t (pre ++ c :: post) = None.
Proof. exact literal_bad_char_rejected. Qed.

Print Assumptions C16_literal_equals_runtime_parse.
Print Assumptions C16_deref_equals_runtime_parse.
Print Assumptions C16_non_ascii_rejected.
Print Assumptions C16_bad_character_rejected.
