(* C06 — editing an owned sequence behaves like editing a list of symbols (refinement).
   Each edit of the model on [encode xs] is the same edit on the code list xs; since the result is
   again of the form [encode _], the statement lifts to every finite history by composition. *)
From Coq Require Import List NArith Bool Arith.
From BioSeq Require Import Bits Codec Tables SeqModel SeqProofs History VM Refine Nested Frame.
Import ListNotations.

Theorem C06_push : forall (C : codec) (xs : list N) (x : N),
  push C (encode (c_bits C) xs) x = encode (c_bits C) (xs ++ [x]).
Proof. exact push_spec. Qed.

Theorem C06_extend : forall (C : codec) (ys xs : list N),
  extend C (encode (c_bits C) xs) ys = encode (c_bits C) (xs ++ ys).
Proof. exact extend_spec. Qed.

Theorem C06_append : forall (C : codec) (xs ys : list N),
  append (encode (c_bits C) xs) (encode (c_bits C) ys) = encode (c_bits C) (xs ++ ys).
Proof. exact append_spec. Qed.

Theorem C06_prepend : forall (C : codec) (xs ys : list N),
  prepend (encode (c_bits C) xs) (encode (c_bits C) ys) = encode (c_bits C) (ys ++ xs).
Proof. exact prepend_spec. Qed.

Theorem C06_insert : forall (C : codec), codec_ok C -> forall (xs : list N) (i : nat) (ys : list N),
  insert C (encode (c_bits C) xs) i (encode (c_bits C) ys) =
    if i <=? length xs then Some (encode (c_bits C) (firstn i xs ++ ys ++ skipn i xs)) else None.
Proof. exact insert_spec. Qed.

Theorem C06_truncate : forall (C : codec) (xs : list N) (n : nat),
  truncate C (encode (c_bits C) xs) n = encode (c_bits C) (firstn n xs).
Proof. exact truncate_spec. Qed.

(* remove: every RangeBounds form denotes a half-open range st..en; in bounds it deletes exactly
   those symbols and disturbs nothing else, in both build profiles *)
Theorem C06_remove : forall (C : codec) (dbg : bool), codec_ok C ->
  forall (xs : list N) (form : N) (a b : nat),
  let (st, en) := range_bounds C (encode (c_bits C) xs) form a b in
  st <= en -> en <= length xs ->
  remove C dbg (encode (c_bits C) xs) form a b =
    Some (encode (c_bits C) (firstn st xs ++ skipn en xs)).
Proof. exact remove_spec. Qed.

Theorem C06_range_forms : forall (C : codec), codec_ok C ->
  forall (xs : list N) (form : N) (a b : nat),
  range_bounds C (encode (c_bits C) xs) form a b =
    match form with
    | 0%N => (a, b) | 1%N => (a, b + 1) | 2%N => (0, b) | 3%N => (0, b + 1)
    | 4%N => (a, length xs) | 5%N => (0, length xs) | _ => (a + 1, b + 1)
    end.
Proof. exact range_bounds_spec. Qed.

Theorem C06_collect : forall (C : codec) (xs : list N),
  collect_syms C xs = encode (c_bits C) xs.
Proof. exact collect_spec. Qed.

(* ... and therefore, by induction over the history: after ANY finite series of in-bounds edits
   (argument slices being arbitrary sequences) the model's result is [encode] of the list obtained
   by applying the same edits to the plain list of symbols, in both build profiles *)
Theorem C06_any_history : forall (C : codec) (dbg : bool), codec_ok C ->
  forall (ops : list eop) (xs ys : list N),
  lrun xs ops = Some ys -> mrun C dbg (encode (c_bits C) xs) ops = Some (encode (c_bits C) ys).
Proof. exact history_refines. Qed.

Theorem C06_history_length_and_symbols : forall (C : codec) (dbg : bool), codec_ok C ->
  forall (ops : list eop) (xs ys : list N),
  Forall (smallc C) ys -> canonl C ys -> lrun xs ops = Some ys ->
  exists s, mrun C dbg (encode (c_bits C) xs) ops = Some s /\
            slen C s = length ys /\ iter C s = Some ys.
Proof. exact history_length_and_symbols. Qed.

(* the same for the WHOLE script language of the correspondence check: every script over the core
   language (all 88 operations: slicing with nested ranges of all forms, edits, reversal,
   complement, masking, set operations, text, iteration, windows, chunks, equality, order, hashing,
   integer views and word images, SeqArray, k-mers, conversion, translation, custom tables; the
   regenerated conversion and translation tables are parameters of both machines) on which the
   list-of-symbols machine [lm_run] is defined (no panic at the level of lists) produces, in the
   bit-level model that is compared with the implementation, exactly the list machine's
   observations and no panic, in both build profiles *)
Theorem C06_vm_refines_list_machine : forall (C : codec) (dbg : bool), codec_ok C ->
  forall (cvi cvt : N -> res N) (ic tc ac : codec) (stdt : list tres) (stdc : list (N * cres))
         (ops : list op) (l' : lstate),
  lm_run C cvi cvt ic tc ac stdt stdc {| lregs := []; lk := None; lct := []; lout := [] |} ops = Some l' ->
  VM.run C dbg cvi cvt ic tc ac stdt stdc ops = (rev (lout l'), false).
Proof. exact script_refines. Qed.

(* inserting beyond the end panics, in any history *)
Theorem C06_insert_beyond_end_panics_in_any_history :
  forall (C : codec) (dbg : bool), codec_ok C ->
  forall (cvi cvt : N -> res N) (ic tc ac : codec) (stdt : list tres) (stdc : list (N * cres))
         (st : state) (l : lstate) (r i : N) (d : sd) (xs ys : list N),
  abs C st l -> lget l r = Some xs -> lslice l d = Some ys -> length xs < N.to_nat i ->
  step C dbg cvi cvt ic tc ac stdt stdc st (OInsert r i d) = None.
Proof. exact insert_beyond_end_panics. Qed.

(* on every script the list machine accepts, the debug and the release build observe the same *)
Theorem C06_build_profiles_agree :
  forall (C : codec), codec_ok C ->
  forall (cvi cvt : N -> res N) (ic tc ac : codec) (stdt : list tres) (stdc : list (N * cres))
         (ops : list op) (l' : lstate),
  lm_run C cvi cvt ic tc ac stdt stdc {| lregs := []; lk := None; lct := []; lout := [] |} ops = Some l' ->
  VM.run C true cvi cvt ic tc ac stdt stdc ops = VM.run C false cvi cvt ic tc ac stdt stdc ops.
Proof. exact profiles_agree. Qed.

(* "edits never disturb symbols outside the edited region", outright: every edit is a splice at a
   position p removing d symbols and inserting ins, all read off the operation ([region]); the
   first p symbols keep value and place, those from p + d on keep their value and move by
   |ins| - d, the inserted ones are exactly ins, the length changes by |ins| - d *)
Theorem C06_edit_disturbs_nothing_outside_region :
  forall (xs : list N) (o : eop) (ys : list N),
  lstep xs o = Some ys ->
  match region xs o with
  | (p, d, ins) =>
      p + d <= length xs /\
      length ys + d = length xs + length ins /\
      (forall i, i < p -> nth i ys 0%N = nth i xs 0%N) /\
      (forall j, j < length ins -> nth (p + j) ys 0%N = nth j ins 0%N) /\
      (forall j, nth (p + length ins + j) ys 0%N = nth (p + d + j) xs 0%N)
  end.
Proof. exact edit_disturbs_nothing_outside_region. Qed.

(* ... and at the bit level after ANY history: the next edit leaves the packed sequence equal to
   the packing of that splice, in both build profiles *)
Theorem C06_next_edit_is_splice_after_any_history :
  forall (C : codec) (dbg : bool), codec_ok C ->
  forall (ops : list eop) (o : eop) (xs ys zs : list N),
  lrun xs ops = Some ys -> lstep ys o = Some zs ->
  match region ys o with
  | (p, d, ins) =>
      p + d <= length ys /\
      mrun C dbg (encode (c_bits C) xs) (ops ++ [o]) =
        Some (encode (c_bits C) (firstn p ys ++ ins ++ skipn (p + d) ys)) /\
      (forall i, i < p -> nth i zs 0%N = nth i ys 0%N) /\
      (forall j, nth (p + length ins + j) zs 0%N = nth (p + d + j) ys 0%N)
  end.
Proof. exact next_edit_is_splice_after_any_history. Qed.

(* non-vacuity: a concrete history *)
Example C06_history_example :
  lrun [1; 2; 3]%N [EPush 0%N; EInsert 1 [3; 3]%N; ERemove 0 0 2; ETruncate 3; EPrepend [2]%N]
  = Some [2; 3; 2; 3]%N.
Proof. reflexivity. Qed.

Print Assumptions C06_push.
Print Assumptions C06_extend.
Print Assumptions C06_append.
Print Assumptions C06_prepend.
Print Assumptions C06_insert.
Print Assumptions C06_truncate.
Print Assumptions C06_remove.
Print Assumptions C06_range_forms.
Print Assumptions C06_collect.
Print Assumptions C06_any_history.
Print Assumptions C06_history_length_and_symbols.
Print Assumptions C06_vm_refines_list_machine.
Print Assumptions C06_insert_beyond_end_panics_in_any_history.
Print Assumptions C06_build_profiles_agree.
Print Assumptions C06_edit_disturbs_nothing_outside_region.
Print Assumptions C06_next_edit_is_splice_after_any_history.
