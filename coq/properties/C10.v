(* C10 — ordering is colexicographic = numeric order of the packed integer (minimisers). *)
From Coq Require Import List NArith Bool Arith.
From BioSeq Require Import Bits Codec Spec SeqModel SeqProofs KmerModel KmerProofs OrderProofs OrderKmer.
Import ListNotations.

(* k-mers order by their integer values (derive(Ord) on the storage integer); that numeric order
   is exactly the colexicographic order of the symbol codes, last symbol most significant *)
Theorem C10_numeric_order_is_colex : forall (Bs : N) (xs ys : list N),
  length xs = length ys ->
  Forall (fun x => (x < Bs)%N) xs -> Forall (fun y => (y < Bs)%N) ys ->
  (pack Bs xs ?= pack Bs ys)%N = colex xs ys.
Proof. exact pack_colex. Qed.

Theorem C10_kmer_order_is_colex : forall (C : codec) (xs ys : list N),
  length xs = length ys -> Forall (smallc C) xs -> Forall (smallc C) ys ->
  (kval C xs ?= kval C ys)%N = colex xs ys.
Proof. exact kmer_order_colex. Qed.

(* the order is total and consistent with equality *)
Theorem C10_order_consistent_with_equality : forall xs ys : list N,
  length xs = length ys -> (colex xs ys = Eq <-> xs = ys).
Proof. exact colex_eq_iff. Qed.

Theorem C10_order_antisymmetric : forall xs ys : list N,
  length xs = length ys -> colex ys xs = CompOpp (colex xs ys).
Proof. exact colex_antisym. Qed.

(* as documented, equal-length owned sequences order the same way as the k-mers with the same
   content (after fix 68becd1) *)
Theorem C10_sequences_order_like_kmers : forall (C : codec) (xs ys : list N),
  length xs = length ys -> Forall (smallc C) xs -> Forall (smallc C) ys ->
  seq_cmp (encode (c_bits C) xs) (encode (c_bits C) ys) = (kval C xs ?= kval C ys)%N.
Proof. exact seq_order_like_kmers. Qed.

Theorem C10_sequences_order_colex : forall (C : codec) (xs ys : list N),
  length xs = length ys -> Forall (smallc C) xs -> Forall (smallc C) ys ->
  seq_cmp (encode (c_bits C) xs) (encode (c_bits C) ys) = colex xs ys.
Proof. exact seq_cmp_colex. Qed.

(* hence the minimum over a sequence's k-mers (Iterator::min on the numeric order) is its
   colexicographic minimiser: one of the windows, and no window is colex-smaller *)
Theorem C10_minimum_is_colex_minimiser : forall (C : codec) (w : list N) (ws : list (list N)),
  Forall (fun v => length v = length w /\ Forall (smallc C) v) (w :: ws) ->
  exists m, In m (w :: ws) /\
            kval C m = fold_left N.min (map (kval C) ws) (kval C w) /\
            forall v, In v (w :: ws) -> colex m v <> Gt.
Proof. exact minimiser_is_colex_least. Qed.

(* README: AAAA < CAAA < GAAA < ... < AAAC < ... < TTTT  (A<C<G<T as 0..3) *)
Example C10_readme_order :
  colex [0;0;0;0]%N [1;0;0;0]%N = Lt /\ colex [1;0;0;0]%N [2;0;0;0]%N = Lt /\
  colex [3;0;0;0]%N [0;0;0;1]%N = Lt /\ colex [0;0;0;1]%N [3;3;3;3]%N = Lt.
Proof. repeat split. Qed.

Print Assumptions C10_numeric_order_is_colex.
Print Assumptions C10_kmer_order_is_colex.
Print Assumptions C10_order_consistent_with_equality.
Print Assumptions C10_order_antisymmetric.
Print Assumptions C10_sequences_order_like_kmers.
Print Assumptions C10_sequences_order_colex.
Print Assumptions C10_minimum_is_colex_minimiser.
