(* C11 — symbol, reverse, window and chunk iterators enumerate exactly the right items, and
   terminate: the model's iterators run on explicit fuel and return OutOfFuel distinctly, so the
   equations below (result = Done ...) are also termination theorems. For every codec with codec_ok,
   every sequence of canonical symbols and every width w >= 1 (w = 0 is outside the property:
   chunks(0) does not terminate). *)
From Coq Require Import List NArith Bool Arith.
From BioSeq Require Import Bits Codec SeqModel SeqProofs IterProofs Partition.
Import ListNotations.

Theorem C11_forward_iteration : forall (C : codec), codec_ok C -> forall xs : list N,
  Forall (smallc C) xs -> canonl C xs -> iter C (encode (c_bits C) xs) = Some xs.
Proof. exact iter_spec. Qed.

Theorem C11_reverse_iteration : forall (C : codec), codec_ok C -> forall xs : list N,
  Forall (smallc C) xs -> canonl C xs -> rev_iter C (encode (c_bits C) xs) = Some (rev xs).
Proof. exact rev_iter_spec. Qed.

Theorem C11_windows : forall (C : codec), codec_ok C -> forall (xs : list N) (w : nat),
  1 <= w ->
  windows C (encode (c_bits C) xs) w =
  Some (Done (map (fun i => encode (c_bits C) (sub xs i w)) (seq 0 (length xs + 1 - w)))).
Proof. exact windows_spec. Qed.

Theorem C11_chunks : forall (C : codec), codec_ok C -> forall (xs : list N) (w : nat),
  1 <= w ->
  chunks_of C (encode (c_bits C) xs) w =
  Some (Done (map (fun k => encode (c_bits C) (sub xs (k * w) w)) (seq 0 (length xs / w)))).
Proof. exact chunks_spec_seq. Qed.

Theorem C11_windows_count : forall (C : codec), codec_ok C -> forall (xs : list N) (w : nat),
  1 <= w -> exists l, windows C (encode (c_bits C) xs) w = Some (Done l) /\
                      length l = length xs + 1 - w.
Proof. exact windows_count. Qed.

Theorem C11_chunks_count : forall (C : codec), codec_ok C -> forall (xs : list N) (w : nat),
  1 <= w -> exists l, chunks_of C (encode (c_bits C) xs) w = Some (Done l) /\
                      length l = length xs / w.
Proof. exact chunks_count. Qed.

Theorem C11_chain : forall (C : codec), codec_ok C -> forall xs ys : list N,
  Forall (smallc C) xs -> canonl C xs -> Forall (smallc C) ys -> canonl C ys ->
  chain C (encode (c_bits C) xs) (encode (c_bits C) ys) = Some (xs ++ ys).
Proof. exact chain_spec. Qed.

(* non-vacuity: widths 1..n+2 on a concrete length *)
(* what those items add up to: the chunks are each exactly w long and concatenated give back the
   first (length xs / w) * w symbols, so only an incomplete tail shorter than w is dropped and
   nothing is repeated or skipped; every window is exactly w long and window i starts at symbol i *)
Theorem C11_chunks_partition_the_prefix : forall (xs : list N) (w : nat),
  1 <= w ->
  let cs := map (fun k => sub xs (k * w) w) (seq 0 (length xs / w)) in
  concat cs = firstn (length xs / w * w) xs /\
  Forall (fun c => length c = w) cs /\
  length xs - length (concat cs) < w.
Proof. exact chunks_partition. Qed.

Theorem C11_window_items : forall (xs : list N) (w i : nat),
  1 <= w -> In i (seq 0 (length xs + 1 - w)) ->
  length (sub xs i w) = w /\ forall j, j < w -> nth j (sub xs i w) 0%N = nth (i + j) xs 0%N.
Proof. exact windows_items. Qed.

Theorem C11_consecutive_windows_overlap : forall (xs : list N) (w i : nat),
  skipn 1 (sub xs i w) = firstn (w - 1) (sub xs (i + 1) w).
Proof. exact windows_overlap. Qed.

Example C11_counts_example : (5 + 1 - 2 = 4) /\ (5 / 2 = 2) /\ (5 + 1 - 7 = 0).
Proof. repeat split. Qed.

Check C11_windows : forall (C : codec), codec_ok C -> forall (xs : list N) (w : nat),
  1 <= w ->
  windows C (encode (c_bits C) xs) w =
  Some (Done (map (fun i => encode (c_bits C) (sub xs i w)) (seq 0 (length xs + 1 - w)))).

Print Assumptions C11_forward_iteration.
Print Assumptions C11_reverse_iteration.
Print Assumptions C11_windows.
Print Assumptions C11_chunks.
Print Assumptions C11_windows_count.
Print Assumptions C11_chunks_count.
Print Assumptions C11_chain.
Print Assumptions C11_chunks_partition_the_prefix.
Print Assumptions C11_window_items.
Print Assumptions C11_consecutive_windows_overlap.
