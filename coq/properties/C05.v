(* C05 — every codec's tables are mutually consistent and match the documented alphabet.
   Finite domain (256 byte values x 7 codecs x 2 profiles): each theorem says that the boolean
   sweep over ALL 256 bytes, evaluated by vm_compute on the tables regenerated from the compiled
   code on every run (coq/gen/Inst_C05_<profile>.v), implies the forall-statement. *)
From Coq Require Import List NArith Bool.
From BioSeq Require Import Bits Codec Tables Spec Derive C05Check.
Import ListNotations.

Theorem C05_tables_consistent : forall C : codec, codec_okb C = true -> codec_ok C.
Proof. exact codec_okb_sound. Qed.

Theorem C05_dna_alphabet : forall C : codec, dna_check C = true -> dna_spec C.
Proof. exact dna_check_sound. Qed.

Theorem C05_iupac_nucleotide_sets : forall C : codec, iupac_check C = true -> iupac_spec C.
Proof. exact iupac_check_sound. Qed.

Theorem C05_amino_codons : forall C : codec, amino_check C = true -> amino_spec C.
Proof. exact amino_check_sound. Qed.

Theorem C05_text_literal_bytes : forall C : codec, text_check C = true -> text_spec C.
Proof. exact text_check_sound. Qed.

Theorem C05_degenerate_strong_weak : forall C : codec, degen_check C = true -> degen_spec C.
Proof. exact degen_check_sound. Qed.

Theorem C05_complement_letters : forall C : codec, comp_letters_check C = true -> comp_letters_ok C.
Proof. exact comp_letters_sound. Qed.

(* pins: the statements cannot be weakened without breaking these *)
Check C05_tables_consistent : forall C : codec, codec_okb C = true -> codec_ok C.
Check C05_dna_alphabet : forall C : codec, dna_check C = true -> dna_spec C.
Check C05_iupac_nucleotide_sets : forall C : codec, iupac_check C = true -> iupac_spec C.
Check C05_amino_codons : forall C : codec, amino_check C = true -> amino_spec C.

(* non-vacuity: a concrete two-symbol codec satisfies the hypothesis of the consistency theorem *)
Definition toy : codec :=
  let t := [Some 0%N; Some 1%N] ++ repeat None 254 in
  let a := repeat None 88 ++ [Some 0%N; Some 1%N] ++ repeat None 166 in
  {| c_bits := 1; c_items := [0%N; 1%N]; c_try_bits := t; c_un_bits := t;
     c_try_ascii := a; c_un_ascii := a;
     c_char := [Some 88%N; Some 89%N] ++ repeat None 254;
     c_comp := repeat None 256; c_has_comp := false;
     c_mask := repeat None 256; c_unmask := repeat None 256; c_has_mask := false |}.
Example toy_ok : codec_okb toy = true.
Proof. vm_compute. reflexivity. Qed.

Print Assumptions C05_tables_consistent.
Print Assumptions C05_dna_alphabet.
Print Assumptions C05_iupac_nucleotide_sets.
Print Assumptions C05_amino_codons.
Print Assumptions C05_text_literal_bytes.
Print Assumptions C05_degenerate_strong_weak.
Print Assumptions C05_complement_letters.
