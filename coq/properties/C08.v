(* C08 — k-mer iteration and construction reproduce the sequence's windows exactly.
   For every codec with codec_ok, every K >= 1 and storage width W with K*BITS <= W. *)
From Coq Require Import List NArith Bool Arith.
From BioSeq Require Import Bits Codec SeqModel SeqProofs SeqProofs2 IterProofs KmerModel KmerProofs KmerProofs2.
Import ListNotations.

(* exactly max(0, n-K+1) k-mers, the i-th holding symbols i..i+K; never out of fuel (terminates) *)
Theorem C08_kmers_enumerated : forall (C : codec) (dbg : bool), codec_ok C ->
  forall (K W : nat), 1 <= K -> K * c_bits C <= W -> forall xs : list N,
  kmers C dbg K W (encode (c_bits C) xs) =
    Some (Done (map (fun j => kval C (sub xs j K)) (seq 0 (length xs + 1 - K)))).
Proof. exact kmers_spec. Qed.

(* identical to the overlapping-windows iterator of width K *)
Theorem C08_kmers_are_windows : forall (C : codec) (dbg : bool), codec_ok C ->
  forall (K W : nat), 1 <= K -> K * c_bits C <= W -> forall xs : list N,
  exists ws, windows C (encode (c_bits C) xs) K = Some (Done ws) /\
             kmers C dbg K W (encode (c_bits C) xs) = Some (Done (map of_bits ws)).
Proof. exact kmers_are_windows. Qed.

(* building from a slice succeeds exactly when the length is K; otherwise an error, never a
   truncated or padded k-mer *)
Theorem C08_from_slice : forall (C : codec) (dbg : bool), codec_ok C ->
  forall (K W : nat), 1 <= K -> K * c_bits C <= W -> forall xs : list N,
  try_from C dbg K W (encode (c_bits C) xs) =
    if length xs =? K then Some (inl (kval C xs)) else Some (inr (KMismatch K (length xs))).
Proof. exact try_from_spec. Qed.

(* building from text: succeeds when the length is K and the text is valid ... *)
Theorem C08_from_text_ok : forall (C : codec) (dbg : bool), codec_ok C ->
  forall (K W : nat), 1 <= K -> K * c_bits C <= W -> forall bs xs : list N,
  length bs = K -> mapM (try_ascii C) bs = Some xs ->
  from_str C dbg K W bs = Some (inl (kval C xs)).
Proof. exact from_str_ok. Qed.

(* ... a wrong length is an error ... *)
Theorem C08_from_text_wrong_length : forall (C : codec) (dbg : bool) (K W : nat) (bs : list N),
  length bs <> K -> from_str C dbg K W bs = Some (inr (KMismatch K (length bs))).
Proof. exact from_str_wrong_length. Qed.

(* ... and the k-mer displays, dereferences and converts back with those same symbols *)
Theorem C08_display : forall (C : codec), codec_ok C ->
  forall (K W : nat), 1 <= K -> K * c_bits C <= W -> forall xs : list N,
  length xs = K -> Forall (smallc C) xs -> canonl C xs ->
  kdisplay C K W (kval C xs) = mapM (char_of C) xs.
Proof. exact kdisplay_spec. Qed.

Theorem C08_deref : forall (C : codec), codec_ok C ->
  forall (K W : nat), 1 <= K -> K * c_bits C <= W -> forall xs : list N,
  length xs = K -> kderef C K W (kval C xs) = Some (encode (c_bits C) xs).
Proof. exact kderef_spec. Qed.

Theorem C08_back_to_sequence : forall (C : codec), codec_ok C ->
  forall (K W : nat), 1 <= K -> K * c_bits C <= W -> forall xs : list N,
  length xs = K -> Forall (smallc C) xs -> canonl C xs ->
  kto_seq C K W (kval C xs) = Some (encode (c_bits C) xs).
Proof. exact kto_seq_spec. Qed.

Print Assumptions C08_kmers_enumerated.
Print Assumptions C08_kmers_are_windows.
Print Assumptions C08_from_slice.
Print Assumptions C08_from_text_ok.
Print Assumptions C08_from_text_wrong_length.
Print Assumptions C08_display.
Print Assumptions C08_deref.
Print Assumptions C08_back_to_sequence.
