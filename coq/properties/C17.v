(* C17 — a derived codec implements exactly what its enum declaration says.
   For EVERY well-formed declaration d (>= 2 variants, integer or byte discriminants <= 255,
   discriminants and alternatives pairwise distinct, display characters pairwise distinct, declared
   width absent or between the minimal one and 8) the derive model yields a codec that implements
   the declaration and satisfies codec_ok — hence every generic sequence theorem (C01, C03, C06,
   C07, C11, ...) holds for sequences over it: the "same round-trip laws" clause, by instantiation.
   parse_width's numeric core is the regenerated 256 x 11 table, proved equal to "least n with
   max < 2^n" on its whole domain on every run. The model is tied to the real proc-macro by the
   generated-enum correspondence (compiled in dev and release, dumped over all 256 bytes). *)
From Coq Require Import List NArith Bool Arith.
From BioSeq Require Import Bits Codec Tables Derive DeriveProofs.
Import ListNotations.

Theorem C17_derived_codec_implements_declaration :
  forall (width_fn : option N -> N -> wres),
  (forall a m, (m < 256)%N -> match a with Some w => (w <= 8)%N | None => True end ->
               width_fn a m = width_spec a m) ->
  forall (d : decl) (vds : list (variant * N)), wf_decl d vds ->
  exists C, derive width_fn d = Compiled C /\ implements d vds C /\ codec_ok C.
Proof. exact derive_implements. Qed.

(* the width specification itself: least n with m < 2^n, at most 8, at least 1 when m >= 1 *)
Theorem C17_minimal_width : forall m : N, (m < 256)%N ->
  (m < 2 ^ minbits m)%N /\ (minbits m <= 8)%N.
Proof. exact minbits_spec. Qed.

Theorem C17_width_table_meets_specification : forall (none : list wres) (attr : list (list wres)),
  width_tables_ok none attr = true ->
  forall a m, (m < 256)%N -> match a with Some w => (w <= 8)%N | None => True end ->
  width_of_tables none attr a m = width_spec a m.
Proof. exact width_tables_sound. Qed.

(* non-vacuity: the README example enum (A = 0b00, C = 0b01, G = 0b10, T = 0b11) is well formed *)
Definition readme_dna : decl :=
  {| d_bits := None;
     d_variants := [ {| v_first := 65; v_disc := LInt 0; v_alts := []; v_display := None |};
                     {| v_first := 67; v_disc := LInt 1; v_alts := []; v_display := None |};
                     {| v_first := 71; v_disc := LInt 2; v_alts := []; v_display := None |};
                     {| v_first := 84; v_disc := LInt 3; v_alts := []; v_display := None |} ]%N |}.
Example readme_dna_bits :
  match derive width_spec readme_dna with Compiled C => c_bits C = 2 /\ codec_okb C = true | _ => False end.
Proof. vm_compute. split; reflexivity. Qed.

(* malformed declarations are compile errors in the model *)
Example too_small_width_rejected :
  derive width_spec {| d_bits := Some 1%N; d_variants := d_variants readme_dna |} = CompileError.
Proof. reflexivity. Qed.
Example missing_discriminant_rejected :
  derive width_spec {| d_bits := None; d_variants :=
     [ {| v_first := 65; v_disc := LMissing; v_alts := []; v_display := None |} ]%N |} = CompileError.
Proof. reflexivity. Qed.
Example non_integer_discriminant_rejected :
  derive width_spec {| d_bits := None; d_variants :=
     [ {| v_first := 65; v_disc := LInt 0; v_alts := []; v_display := None |};
       {| v_first := 67; v_disc := LOther; v_alts := []; v_display := None |} ]%N |} = CompileError.
Proof. reflexivity. Qed.

Print Assumptions C17_derived_codec_implements_declaration.
Print Assumptions C17_minimal_width.
Print Assumptions C17_width_table_meets_specification.
