(* C12 — IUPAC sequences behave as per-position nucleotide sets under | , & and contains.
   Codes ARE nucleotide sets (C05_iupac_nucleotide_sets: bit 3 = A .. bit 0 = T); the gap (code 0)
   is the empty set. *)
From Coq Require Import List NArith Bool Arith.
From BioSeq Require Import Bits Codec Spec SeqModel SeqProofs SeqProofs2 IupacProofs.
Import ListNotations.

(* `&` / `|` of equal-length sequences act position-wise on the codes (operands at any offsets:
   the model has no offsets; the borrowed and the owned forms are the same function) *)
Theorem C12_and_positionwise : forall (C : codec), codec_ok C -> forall xs ys : list N,
  length xs = length ys ->
  and_assign (encode (c_bits C) xs) (encode (c_bits C) ys) = encode (c_bits C) (map2 N.land xs ys).
Proof. exact bitand_positionwise. Qed.

Theorem C12_or_positionwise : forall (C : codec), codec_ok C -> forall xs ys : list N,
  length xs = length ys ->
  or_assign (encode (c_bits C) xs) (encode (c_bits C) ys) = encode (c_bits C) (map2 N.lor xs ys).
Proof. exact bitor_positionwise. Qed.

(* on 4-bit codes: land is the intersection of the nucleotide sets, lor the union, "land x y = y"
   is the subset test, and a code is the code of its set (all 256 pairs, in the kernel) *)
Theorem C12_codes_are_sets : forall x y : N, (x < 16)%N -> (y < 16)%N ->
  code_set (N.land x y) = set_inter (code_set x) (code_set y) /\
  code_set (N.lor x y) = set_union (code_set x) (code_set y) /\
  (N.land x y = y <-> set_subset (code_set y) (code_set x) = true) /\
  set_code (code_set x) = x.
Proof. exact iupac_set_algebra. Qed.

(* contains: true exactly when the lengths are equal and at every position (pattern & arg) = arg,
   i.e. the argument's set is a subset of the pattern's *)
Theorem C12_contains : forall (C : codec), codec_ok C -> forall ps qs : list N,
  Forall (smallc C) ps -> Forall (smallc C) qs ->
  contains C (encode (c_bits C) ps) (encode (c_bits C) qs) =
    (length qs =? length ps) &&
    (if list_eq_dec N.eq_dec (map2 N.land ps qs) qs then true else false).
Proof. exact contains_spec. Qed.

Example C12_union_example : N.lor 8 2 = 10%N /\ code_set 10 = [dA; dG] /\ N.land 10 5 = 0%N.
Proof. repeat split. Qed.

Print Assumptions C12_and_positionwise.
Print Assumptions C12_or_positionwise.
Print Assumptions C12_codes_are_sets.
Print Assumptions C12_contains.
