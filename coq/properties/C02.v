(* C02 — equality and hashing depend only on content, for every sequence type and offset.
   In the model a sequence value IS its content (there are no offsets to depend on); that the
   implementation behaves like the model at every start offset, for all 17 PartialEq impls and the
   Hash impls, is the correspondence half of this check. *)
From Coq Require Import List NArith Bool.
From BioSeq Require Import Bits Codec SeqModel SeqProofs SeqProofs2 KmerModel KmerProofs.
Import ListNotations.

(* two sequences compare equal exactly when they have the same length and the same symbols *)
Theorem C02_equal_iff_same_symbols : forall (C : codec), codec_ok C -> forall xs ys : list N,
  Forall (smallc C) xs -> Forall (smallc C) ys ->
  (seq_eqb (encode (c_bits C) xs) (encode (c_bits C) ys) = true <-> xs = ys).
Proof. exact eq_iff_same_symbols. Qed.

(* sequences that compare equal feed identical data to any hasher ... *)
Theorem C02_equal_implies_same_hash_feed : forall (C : codec) (a b : bits),
  seq_eqb a b = true -> hash_feed C a = hash_feed C b.
Proof. exact eq_same_hash_feed. Qed.

(* ... and equal-length sequences with identical feeds are equal (the partition of feeds observed by
   the correspondence is the partition of contents) *)
Theorem C02_hash_feed_injective : forall (C : codec) (a b : bits),
  length a = length b -> hash_feed C a = hash_feed C b -> a = b.
Proof. exact hash_feed_inj. Qed.

(* a sequence compares equal to its own displayed text and to no other parseable text *)
Theorem C02_equal_to_text : forall (C : codec), codec_ok C -> forall (xs bs : list N),
  Forall (smallc C) xs -> canonl C xs ->
  eq_str C (encode (c_bits C) xs) bs =
    Some (match mapM (try_ascii C) bs with
          | Some ys => if list_eq_dec N.eq_dec ys xs then true else false
          | None => false
          end).
Proof. exact eq_str_spec. Qed.

(* k-mer against slice / owned sequence: equal exactly when same symbols (hence same length K) *)
Theorem C02_kmer_equals_sequence : forall (C : codec) (dbg : bool), codec_ok C ->
  forall (K W : nat), 1 <= K -> K * c_bits C <= W -> forall xs ys : list N,
  length xs = K -> Forall (smallc C) xs -> Forall (smallc C) ys ->
  keq_slice C dbg K W (kval C xs) (encode (c_bits C) ys) =
    Some (if list_eq_dec N.eq_dec ys xs then true else false).
Proof. exact keq_slice_spec. Qed.

(* a k-mer hashes like the slice it was copied from (after fix dd3416e) *)
Theorem C02_kmer_hashes_like_slice : forall (C : codec), codec_ok C ->
  forall (K W : nat), 1 <= K -> K * c_bits C <= W -> forall xs : list N,
  length xs = K -> khash_feed C K W (kval C xs) = Some (hash_feed C (encode (c_bits C) xs)).
Proof. exact khash_feed_spec. Qed.

Print Assumptions C02_equal_iff_same_symbols.
Print Assumptions C02_equal_implies_same_hash_feed.
Print Assumptions C02_hash_feed_injective.
Print Assumptions C02_equal_to_text.
Print Assumptions C02_kmer_equals_sequence.
Print Assumptions C02_kmer_hashes_like_slice.
