(* C09 — k-mer operations agree with the same operation on the equivalent sequence; results are
   canonical.  A k-mer with symbols xs is the storage integer [kval C xs]; every operation below
   returns [kval C (list operation xs)], i.e. the k-mer of the sequence operation's result, and
   such values are canonical by C04_kmer_value_canonical. *)
From Coq Require Import List NArith Bool Arith.
From BioSeq Require Import Bits Codec SeqModel SeqProofs SeqProofs2 KmerModel KmerProofs KmerProofs2
  Rev2Bit KmerDna.
Import ListNotations.

(* rotation by ANY amount n (u32 in the code): by n mod K symbols *)
Theorem C09_rotate_left : forall (C : codec), codec_ok C ->
  forall (K W : nat), 1 <= K -> K * c_bits C <= W -> forall (xs : list N) (n : N),
  length xs = K ->
  rotated_left C K W (kval C xs) n = Some (kval C (lrotl (N.to_nat (n mod N.of_nat K)) xs)).
Proof. exact rotated_left_spec. Qed.

Theorem C09_rotate_right : forall (C : codec), codec_ok C ->
  forall (K W : nat), 1 <= K -> K * c_bits C <= W -> forall (xs : list N) (n : N),
  length xs = K ->
  rotated_right C K W (kval C xs) n = Some (kval C (lrotr (N.to_nat (n mod N.of_nat K)) xs)).
Proof. exact rotated_right_spec. Qed.

(* pushing a symbol on either end drops one from the other end *)
Theorem C09_push_right : forall (C : codec), codec_ok C ->
  forall (K W : nat), 1 <= K -> K * c_bits C <= W -> forall (xs : list N) (b : N),
  length xs = K -> pushr C K W (kval C xs) b = Some (kval C (skipn 1 xs ++ [b])).
Proof. exact pushr_spec. Qed.

Theorem C09_push_left : forall (C : codec), codec_ok C ->
  forall (K W : nat), 1 <= K -> K * c_bits C <= W -> forall (xs : list N) (b : N),
  length xs = K -> pushl C K W (kval C xs) b = Some (kval C (b :: firstn (K - 1) xs)).
Proof. exact pushl_spec. Qed.

(* reverse, every codec whose symbols are not 2 bits wide (after fix e852492) ... *)
Theorem C09_reverse_generic : forall (C : codec), codec_ok C ->
  forall (K W : nat), 1 <= K -> K * c_bits C <= W -> forall xs : list N,
  length xs = K -> (c_bits C =? 2) = false ->
  krev C K W (kval C xs) = Some (kval C (rev xs)).
Proof. exact krev_generic_spec. Qed.

(* ... and 2-bit codecs: byte swap + 256-entry table + shift *)
Theorem C09_reverse_2bit : forall (C : codec), codec_ok C ->
  forall K : nat, 1 <= K -> c_bits C = 2 -> K * 2 <= 64 -> forall xs : list N,
  length xs = K -> krev C K 64 (kval C xs) = Some (kval C (rev xs)).
Proof. exact krev_2bit_spec. Qed.

(* complement / reverse-complement of 2-bit k-mers, including K = 32 (full-width mask) *)
Theorem C09_complement_2bit : forall (C : codec), codec_ok C ->
  forall K : nat, 1 <= K -> c_bits C = 2 -> K * 2 <= 64 -> forall xs : list N,
  length xs = K -> kcomplement C K 64 (kval C xs) = kval C (map comp2 xs).
Proof. exact kcomplement_2bit. Qed.

Theorem C09_revcomp_2bit : forall (C : codec), codec_ok C ->
  forall K : nat, 1 <= K -> c_bits C = 2 -> K * 2 <= 64 -> forall xs : list N,
  length xs = K -> krevcomp C K 64 (kval C xs) = Some (kval C (rev (map comp2 xs))).
Proof. exact krevcomp_2bit. Qed.

(* reverse-complement is an involution, so min(k, revcomp k) is the same for k and revcomp k *)
Theorem C09_revcomp_involution : forall (C : codec), codec_ok C ->
  forall K : nat, 1 <= K -> c_bits C = 2 -> K * 2 <= 64 -> forall xs : list N,
  length xs = K -> Forall (fun x => (x < 4)%N) xs ->
  (do y <- krevcomp C K 64 (kval C xs); krevcomp C K 64 y) = Some (kval C xs).
Proof. exact krevcomp_involutive. Qed.

Theorem C09_canonical_form_symmetric : forall (C : codec), codec_ok C ->
  forall K : nat, 1 <= K -> c_bits C = 2 -> K * 2 <= 64 -> forall (xs : list N) (y : N),
  length xs = K -> Forall (fun x => (x < 4)%N) xs ->
  krevcomp C K 64 (kval C xs) = Some y ->
  exists z, krevcomp C K 64 y = Some z /\ N.min (kval C xs) y = N.min y z.
Proof. exact canonical_form_symmetric. Qed.

(* results are canonical: every result above is [kval C ys] with length ys = K, and *)
Theorem C09_results_canonical : forall (C : codec), codec_ok C ->
  forall (K W : nat), 1 <= K -> K * c_bits C <= W -> forall ys : list N,
  length ys = K -> (kval C ys < 2 ^ N.of_nat (K * c_bits C))%N.
Proof. exact kval_canonical. Qed.

Print Assumptions C09_rotate_left.
Print Assumptions C09_rotate_right.
Print Assumptions C09_push_right.
Print Assumptions C09_push_left.
Print Assumptions C09_reverse_generic.
Print Assumptions C09_reverse_2bit.
Print Assumptions C09_complement_2bit.
Print Assumptions C09_revcomp_2bit.
Print Assumptions C09_revcomp_involution.
Print Assumptions C09_canonical_form_symmetric.
Print Assumptions C09_results_canonical.
