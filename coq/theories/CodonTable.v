(* CodonTable.v — CodonTable::from_map (bio-seq/src/translation.rs): the inverse table built by
   iterating a HashMap in ANY order is a faithful bidirectional map (C15).
   The map is a key-distinct entry list m; an iteration order is any permutation l of m. *)
From Coq Require Import List Arith NArith Lia Bool Permutation.
Import ListNotations.

Section Table.
Variables (K A : Type).
Variable A_eqb : A -> A -> bool.
Hypothesis A_eqb_spec : forall x y, reflect (x = y) (A_eqb x y).

(* inverse_table : HashMap<B, Option<Seq<A>>> as a total lookup function *)
Definition inv := A -> option (option K).
Definition empty : inv := fun _ => None.

(* one iteration of the loop in CodonTable::from_map:
   if inverse_table.contains_key(amino) { insert(amino, None) } else { insert(amino, Some(codon)) } *)
Definition step (t : inv) (e : K * A) : inv :=
  let (c, a) := e in
  fun a' => if A_eqb a' a
            then (match t a with Some _ => Some None | None => Some (Some c) end)
            else t a'.

Definition build (l : list (K * A)) : inv := fold_left step l empty.

(* the codons mapped to amino acid a *)
Definition pre (a : A) (l : list (K * A)) : list K :=
  map fst (filter (fun e => A_eqb (snd e) a) l).

Definition Inv (l : list (K * A)) (t : inv) : Prop :=
  forall a, match pre a l with
            | [] => t a = None
            | [c] => t a = Some (Some c)
            | _ :: _ :: _ => t a = Some None
            end.

Lemma pre_app a l e : pre a (l ++ [e]) = pre a l ++ (if A_eqb (snd e) a then [fst e] else []).
Proof. unfold pre. rewrite filter_app, map_app. simpl. destruct (A_eqb (snd e) a); reflexivity. Qed.

Lemma step_inv l t e : Inv l t -> Inv (l ++ [e]) (step t e).
Proof.
  intros H a. rewrite pre_app. destruct e as [c a0]. cbn [fst snd step].
  specialize (H a) as Ha. specialize (H a0) as Ha0.
  destruct (A_eqb_spec a0 a) as [->|Hne].
  - destruct (A_eqb_spec a a) as [_|N]; [|congruence].
    destruct (pre a l) as [|c1 [|c2 r]]; cbn [app]; rewrite Ha; reflexivity.
  - destruct (A_eqb_spec a a0) as [E|_]; [congruence|].
    rewrite app_nil_r. exact Ha.
Qed.

Lemma build_inv_gen l0 t l : Inv l0 t -> Inv (l0 ++ l) (fold_left step l t).
Proof.
  revert l0 t. induction l as [|e l IH]; intros l0 t H; cbn [fold_left].
  - now rewrite app_nil_r.
  - replace (l0 ++ e :: l) with ((l0 ++ [e]) ++ l) by (rewrite <- app_assoc; reflexivity).
    apply IH. apply step_inv. exact H.
Qed.

Theorem build_inv l : Inv l (build l).
Proof. apply (build_inv_gen [] empty l). intro a. reflexivity. Qed.

(* order independence: any permutation of the entries (any HashMap iteration order) *)
Lemma pre_perm a l l' : Permutation l l' -> Permutation (pre a l) (pre a l').
Proof.
  intro P. unfold pre. apply Permutation_map.
  induction P; cbn [filter].
  - constructor.
  - destruct (A_eqb (snd x) a); auto.
  - destruct (A_eqb (snd x) a), (A_eqb (snd y) a); auto using perm_swap.
  - etransitivity; eauto.
Qed.

(* reverse lookup: the unique codon mapped to an amino acid; ambiguity when two or more codons map
   to it; invalid amino acid when none does — whatever the iteration order *)
Theorem build_order_independent m l a :
  Permutation m l ->
  match pre a m with
  | [] => build l a = None                         (* InvalidAmino *)
  | [c] => build l a = Some (Some c)               (* the unique codon *)
  | _ :: _ :: _ => build l a = Some None           (* AmbiguousCodon *)
  end.
Proof.
  intro P. pose proof (build_inv l a) as H. pose proof (pre_perm a m l P) as Q.
  destruct (pre a m) as [|c1 [|c2 r]].
  - apply Permutation_nil in Q. rewrite Q in H. exact H.
  - apply Permutation_length_1_inv in Q. rewrite Q in H. exact H.
  - pose proof (Permutation_length Q) as L. cbn [length] in L.
    destruct (pre a l) as [|d1 [|d2 s]]; cbn [length] in L; try lia. exact H.
Qed.

(* forward lookup in a key-distinct entry list: exactly the mapped amino acid for a key, nothing
   otherwise; independent of the order *)
Variable K_eqb : K -> K -> bool.
Hypothesis K_eqb_spec : forall x y, reflect (x = y) (K_eqb x y).

Fixpoint lookup (l : list (K * A)) (k : K) : option A :=
  match l with
  | [] => None
  | (k', a) :: t => if K_eqb k' k then Some a else lookup t k
  end.

Lemma lookup_in l k a : NoDup (map fst l) -> In (k, a) l -> lookup l k = Some a.
Proof.
  induction l as [|[k' a'] t IH]; intros ND Hin; [destruct Hin|].
  cbn [lookup]. inversion ND as [|? ? Hnot ND']; subst. destruct Hin as [E|Hin].
  - inversion E; subst. destruct (K_eqb_spec k k); [reflexivity|congruence].
  - destruct (K_eqb_spec k' k) as [->|_].
    + exfalso. apply Hnot. apply in_map_iff. exists (k, a). split; [reflexivity|exact Hin].
    + apply IH; assumption.
Qed.

Lemma lookup_none l k : ~ In k (map fst l) -> lookup l k = None.
Proof.
  induction l as [|[k' a'] t IH]; intros H; [reflexivity|]. cbn [lookup].
  destruct (K_eqb_spec k' k) as [->|_].
  - exfalso. apply H. left. reflexivity.
  - apply IH. intro Hin. apply H. right. exact Hin.
Qed.

Theorem lookup_order_independent m l k :
  NoDup (map fst m) -> Permutation m l -> lookup l k = lookup m k.
Proof.
  intros ND P.
  assert (ND' : NoDup (map fst l)).
  { eapply Permutation_NoDup; [apply Permutation_map; exact P | exact ND]. }
  destruct (lookup m k) as [a|] eqn:E.
  - assert (Hin : In (k, a) m).
    { clear - E K_eqb_spec. induction m as [|[k' a'] t IH]; [discriminate|]. cbn [lookup] in E.
      destruct (K_eqb_spec k' k) as [->|_]; [inversion E; left; reflexivity|right; apply IH; exact E]. }
    apply lookup_in; [exact ND'|]. eapply Permutation_in; [exact P|exact Hin].
  - apply lookup_none. intro Hin.
    assert (In k (map fst m)).
    { eapply Permutation_in; [apply Permutation_sym, Permutation_map; exact P | exact Hin]. }
    clear - E H K_eqb_spec. induction m as [|[k' a'] t IH]; [destruct H|]. cbn [lookup] in E.
    destruct (K_eqb_spec k' k) as [->|Hne]; [discriminate|]. destruct H as [H|H]; [contradiction|].
    apply IH; assumption.
Qed.

End Table.
