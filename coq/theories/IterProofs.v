(* IterProofs.v — the window/chunk iterator (SeqChunks) enumerates exactly the right slices and
   terminates: the fuel of the model is never exhausted (C11). *)
From Coq Require Import List Arith NArith Lia Bool.
From BioSeq Require Import Bits Codec SeqModel SeqProofs.
Import ListNotations.

Section Iter.
Variable C : codec.
Hypothesis OK : codec_ok C.
Local Notation B := (c_bits C).

(* the slice a..a+w of a code list *)
Definition sub (xs : list N) (a w : nat) : list N := firstn w (skipn a xs).

(* positions visited by the state machine: index, index+skip, ... while index + width <= n *)
Fixpoint positions (n w skip idx fuel : nat) : list nat :=
  match fuel with
  | O => []
  | S f => if n <? idx + w then [] else idx :: positions n w skip (idx + skip) f
  end.

Lemma chunk_collect_spec xs w skip idx fuel :
  1 <= skip -> length xs + 1 - idx < fuel ->
  chunk_collect C (encode B xs) {| ck_width := w; ck_skip := skip; ck_index := idx |} fuel =
  Some (Done (map (fun i => encode B (sub xs i w)) (positions (length xs) w skip idx fuel))).
Proof.
  intros Hs. revert idx. induction fuel as [|f IH]; intros idx Hf; [lia|].
  cbn [chunk_collect positions]. unfold chunk_next. cbn [ck_index ck_width ck_skip].
  rewrite (slen_encode C OK).
  destruct (length xs <? idx + w) eqn:E.
  - reflexivity.
  - cbn [bind]. apply Nat.ltb_ge in E.
    rewrite (index_range_in C xs idx (idx + w)) by lia. cbn [bind].
    cbn [ret bind].
    rewrite IH by lia. cbn [bind]. unfold ret. cbn [map].
    replace (idx + w - idx) with w by lia. reflexivity.
Qed.

(* with enough fuel the position list does not depend on the fuel: closed forms *)
Lemma positions_windows n w idx fuel :
  n - idx < fuel -> 1 <= w ->
  positions n w 1 idx fuel = seq idx (n + 1 - w - idx).
Proof.
  revert idx. induction fuel as [|f IH]; intros idx Hf Hw; [lia|].
  cbn [positions]. destruct (n <? idx + w) eqn:E.
  - apply Nat.ltb_lt in E. replace (n + 1 - w - idx) with 0 by lia. reflexivity.
  - apply Nat.ltb_ge in E. rewrite IH by lia.
    replace (n + 1 - w - idx) with (S (n + 1 - w - (idx + 1))) by lia.
    cbn [seq]. replace (idx + 1) with (S idx) by lia. reflexivity.
Qed.

Lemma positions_chunks n w j fuel :
  1 <= w -> n - j * w < fuel ->
  positions n w w (j * w) fuel = map (fun k => k * w) (seq j (n / w - j)).
Proof.
  intros Hw. revert j. induction fuel as [|f IH]; intros j Hf; [lia|].
  cbn [positions]. destruct (n <? j * w + w) eqn:E.
  - apply Nat.ltb_lt in E.
    assert (n / w <= j).
    { apply Nat.lt_succ_r. apply Nat.div_lt_upper_bound; lia. }
    replace (n / w - j) with 0 by lia. reflexivity.
  - apply Nat.ltb_ge in E.
    assert (j < n / w).
    { apply Nat.div_le_lower_bound; lia. }
    replace (j * w + w) with ((j + 1) * w) by lia. rewrite IH by nia.
    replace (n / w - j) with (S (n / w - (j + 1))) by lia.
    cbn [seq map]. replace (j + 1) with (S j) by lia. reflexivity.
Qed.

(* overlapping windows of width w >= 1: the n-w+1 consecutive width-w slices (none if w > n) *)
Theorem windows_spec xs w :
  1 <= w ->
  windows C (encode B xs) w =
  Some (Done (map (fun i => encode B (sub xs i w)) (seq 0 (length xs + 1 - w)))).
Proof.
  intros Hw. unfold windows. rewrite (slen_encode C OK).
  rewrite chunk_collect_spec by lia.
  rewrite positions_windows by lia. now rewrite Nat.sub_0_r.
Qed.

(* chunks of width w >= 1: the floor(n/w) disjoint width-w slices from the start; tail dropped *)
Theorem chunks_spec_seq xs w :
  1 <= w ->
  chunks_of C (encode B xs) w =
  Some (Done (map (fun k => encode B (sub xs (k * w) w)) (seq 0 (length xs / w)))).
Proof.
  intros Hw. unfold chunks_of. rewrite (slen_encode C OK).
  rewrite chunk_collect_spec by lia.
  change 0 with (0 * w) at 1. rewrite positions_chunks by lia.
  rewrite Nat.sub_0_r, map_map. reflexivity.
Qed.

Lemma sub_length xs a w : a + w <= length xs -> length (sub xs a w) = w.
Proof. intros H. unfold sub. rewrite firstn_length, skipn_length. lia. Qed.

(* counts *)
Corollary windows_count xs w :
  1 <= w -> exists l, windows C (encode B xs) w = Some (Done l) /\ length l = length xs + 1 - w.
Proof.
  intros Hw. eexists. split; [apply windows_spec; exact Hw|]. now rewrite map_length, seq_length.
Qed.

Corollary chunks_count xs w :
  1 <= w -> exists l, chunks_of C (encode B xs) w = Some (Done l) /\ length l = length xs / w.
Proof.
  intros Hw. eexists. split; [apply chunks_spec_seq; exact Hw|]. now rewrite map_length, seq_length.
Qed.

End Iter.
