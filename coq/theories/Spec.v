(* Spec.v — independent oracles transcribed from the documentation (README, module docs, IUPAC
   nomenclature, NCBI translation table 1).  Nothing here is derived from the code. *)
From Coq Require Import List Arith NArith Lia Bool String Ascii.
Import ListNotations.
Local Open Scope N_scope.

(* ASCII *)
Definition ch (s : string) : N :=
  match s with String a _ => N_of_ascii a | EmptyString => 0 end.

(* 2-bit DNA: A < C < G < T as 0..3 ; complements pair A-T and C-G *)
Definition dA := 0. Definition dC := 1. Definition dG := 2. Definition dT := 3.
Definition dna_doc : list (N * N) :=      (* code, display character *)
  [(dA, ch "A"); (dC, ch "C"); (dG, ch "G"); (dT, ch "T")].
Definition dna_comp_doc (x : N) : N :=
  if x =? dA then dT else if x =? dT then dA else if x =? dC then dG else dC.

(* IUPAC nucleotide ambiguity codes: letter -> set of bases *)
Definition iupac_sets : list (N * list N) :=
  [(ch "A", [dA]); (ch "C", [dC]); (ch "G", [dG]); (ch "T", [dT]);
   (ch "R", [dA; dG]); (ch "Y", [dC; dT]); (ch "S", [dC; dG]); (ch "W", [dA; dT]);
   (ch "K", [dG; dT]); (ch "M", [dA; dC]);
   (ch "B", [dC; dG; dT]); (ch "D", [dA; dG; dT]); (ch "H", [dA; dC; dT]); (ch "V", [dA; dC; dG]);
   (ch "N", [dA; dC; dG; dT]); (ch "-", [])].

(* the documented 4-bit layout: bit 3 = A, bit 2 = C, bit 1 = G, bit 0 = T *)
Definition base_bit (b : N) : N :=
  if b =? dA then 8 else if b =? dC then 4 else if b =? dG then 2 else 1.
Definition set_code (s : list N) : N := fold_left (fun acc b => N.lor acc (base_bit b)) s 0.
Definition code_set (c : N) : list N :=
  filter (fun b => negb (N.land c (base_bit b) =? 0)) [dA; dC; dG; dT].

(* NCBI translation table 1 (the standard genetic code), base order T C A G *)
Definition ncbi1_string : string :=
  "FFLLSSSSYY**CC*WLLLLPPPPHHQQRRRRIIIMTTTTNNKKSSRRVVVVAAAADDEEGGGG".
Definition tcag (b : N) : N :=
  if b =? dT then 0 else if b =? dC then 1 else if b =? dA then 2 else 3.
Fixpoint string_nth (n : nat) (s : string) : N :=
  match s, n with
  | EmptyString, _ => 0
  | String a _, O => N_of_ascii a
  | String _ t, S k => string_nth k t
  end.
(* amino-acid letter ('*' = stop) of the DNA codon b0 b1 b2 *)
Definition ncbi1 (b0 b1 b2 : N) : N :=
  string_nth (N.to_nat (16 * tcag b0 + 4 * tcag b1 + tcag b2)) ncbi1_string.

(* complement of a display letter (IUPAC), upper and lower case; gap/pad fixed *)
Definition comp_letter_pairs : list (string * string) :=
  [("A","T"); ("C","G"); ("G","C"); ("T","A"); ("R","Y"); ("Y","R"); ("S","S"); ("W","W");
   ("K","M"); ("M","K"); ("B","V"); ("V","B"); ("D","H"); ("H","D"); ("N","N"); ("-","-"); (".",".");
   ("a","t"); ("c","g"); ("g","c"); ("t","a"); ("r","y"); ("y","r"); ("s","s"); ("w","w");
   ("k","m"); ("m","k"); ("b","v"); ("v","b"); ("d","h"); ("h","d"); ("n","n")]%string.
Definition comp_letter (c : N) : option N :=
  option_map (fun p => ch (snd p)) (find (fun p => ch (fst p) =? c) comp_letter_pairs).

(* case of letters *)
Definition lower (c : N) : N := if (65 <=? c) && (c <=? 90) then c + 32 else c.
Definition upper (c : N) : N := if (97 <=? c) && (c <=? 122) then c - 32 else c.

(* 8-bit text codec: a literal interpretation of bytes; parses A C G T N *)
Definition text_doc : list N := [ch "A"; ch "C"; ch "G"; ch "T"; ch "N"].

(* 1-bit degenerate codec: S (strong: C, G) = 1, W (weak: A, T) = 0 *)
Definition degen_ascii_doc : list (N * N) :=
  [(ch "S", 1); (ch "C", 1); (ch "G", 1); (ch "W", 0); (ch "A", 0); (ch "T", 0)].
Definition degen_char_doc : list (N * N) := [(1, ch "S"); (0, ch "W")].

(* colexicographic order on code lists: the LAST symbol is the most significant *)
Fixpoint colex (xs ys : list N) : comparison :=
  match xs, ys with
  | [], [] => Eq
  | [], _ => Lt
  | _, [] => Gt
  | x :: xt, y :: yt => match colex xt yt with Eq => N.compare x y | c => c end
  end.
