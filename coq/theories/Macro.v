(* Macro.v — model of the literal macros dna! / iupac! / kmer! (bio-seq-derive/src/lib.rs,
   seqarray.rs; SeqArray deref in bio-seq/src/seq/array.rs) and the theorem that a literal the
   runtime parser accepts expands to the very value the parser builds (C16). *)
From Coq Require Import List Arith NArith Lia Bool.
From BioSeq Require Import Bits Codec SeqModel SeqProofs SeqProofs2 KmerModel KmerProofs.
Import ListNotations.

(* the per-character table of a macro: index = ASCII code 0..127; None = `Invalid base` error *)
Definition mtab := list (option (nat * list bool)).
Definition macro_char (t : mtab) (c : N) : option (nat * bits) := nth (N.to_nat c) t None.

(* dna_seq / iupac_seq: fold over char_indices, first invalid character is an error *)
Fixpoint macro_seq (t : mtab) (l : list N) : option (nat * bits) :=
  match l with
  | [] => Some (0, [])
  | c :: r => match macro_char t c with
              | Some (n, b) => match macro_seq t r with
                               | Some (m, bs) => Some (n + m, b ++ bs)
                               | None => None
                               end
              | None => None
              end
  end.

Definition is_ascii (l : list N) : bool := forallb (fun c => N.ltb c 128) l.

(* the macro entry point: the is_ascii pre-check, then the fold. None = compile-time error. *)
Definition literal (t : mtab) (l : list N) : option (nat * bits) :=
  if is_ascii l then macro_seq t l else None.

(* gen_seqarray + Deref: the words hold the bits padded to whole words; deref takes N*BITS bits *)
Definition seqarray_deref (B : nat) (v : nat * bits) : bits :=
  let (n, b) := v in
  let words := (length b + 63) / 64 in
  firstn (n * B) (b ++ repeat false (words * 64 - length b)).

Section MacroThm.
Variable C : codec.
Hypothesis OK : codec_ok C.
Local Notation B := (c_bits C).
Variable t : mtab.

(* the macro's table agrees with the runtime decoder on everything the decoder accepts, and the
   decoder accepts only ASCII *)
Definition macro_agrees : Prop :=
  forall c x, try_ascii C c = Some x -> (c < 128)%N /\ macro_char t c = Some (1, to_bits B x).

Definition macro_agreesb : bool :=
  forallb (fun c => match try_ascii C c with
                    | Some x => N.ltb c 128 &&
                                match macro_char t c with
                                | Some (n, b) => (n =? 1) && bits_eqb b (to_bits B x)
                                | None => false
                                end
                    | None => true
                    end) bytes256.

Lemma macro_agreesb_sound : macro_agreesb = true -> macro_agrees.
Proof.
  unfold macro_agreesb, macro_agrees. intros H c x Hc.
  assert (Hb : (c < 256)%N).
  { eapply tget_some_lt; [apply (@ok_len_try_ascii C OK) | exact Hc]. }
  rewrite forallb_forall in H. specialize (H c (proj1 (bytes256_in c) Hb)).
  rewrite Hc in H. apply andb_prop in H. destruct H as [H1 H2]. split; [apply N.ltb_lt; exact H1|].
  destruct (macro_char t c) as [[n b]|]; [|discriminate].
  apply andb_prop in H2. destruct H2 as [Hn Hbits].
  apply Nat.eqb_eq in Hn. apply bits_eqb_eq in Hbits. subst. reflexivity.
Qed.

(* every string the runtime parser accepts expands to a value with the same length and bits *)
Theorem literal_equals_runtime_parse l xs :
  macro_agrees -> ascii_syms C l = Some xs ->
  literal t l = Some (length l, encode B xs).
Proof.
  intros HA. unfold literal, ascii_syms. revert xs.
  induction l as [|c r IH]; intros xs H; cbn [mapM] in H.
  - inversion H. reflexivity.
  - destruct (try_ascii C c) as [x|] eqn:E; [|discriminate]. cbn [bind] in H.
    destruct (mapM (try_ascii C) r) as [ys|]; [|discriminate]. cbn [bind ret] in H.
    inversion H; subst.
    destruct (HA c x E) as [Hlt Hm].
    specialize (IH ys eq_refl).
    cbn [is_ascii forallb]. apply N.ltb_lt in Hlt. rewrite Hlt. cbn [andb].
    unfold is_ascii in IH.
    destruct (forallb (fun c0 : N => (c0 <? 128)%N) r) eqn:Ea; [|discriminate IH].
    cbn [macro_seq]. rewrite Hm, IH. reflexivity.
Qed.

(* ... and its deref (the &'static SeqSlice the program sees) is the parsed sequence *)
Theorem literal_deref_equals_runtime_parse l xs :
  macro_agrees -> ascii_syms C l = Some xs ->
  option_map (seqarray_deref B) (literal t l) = Some (encode B xs).
Proof.
  intros HA H. rewrite (literal_equals_runtime_parse l xs HA H). cbn [option_map seqarray_deref].
  f_equal.
  assert (L : length l = length xs).
  { unfold ascii_syms in H. symmetry. apply (mapM_length _ _ _ H). }
  rewrite L. replace (length xs * B) with (length (encode B xs)) by (rewrite encode_length; lia).
  rewrite firstn_app, firstn_all, Nat.sub_diag, firstn_O, app_nil_r. reflexivity.
Qed.

(* a literal containing a non-ASCII character, or a character outside the macro's alphabet, is a
   compile-time error *)
Theorem literal_non_ascii_rejected l : is_ascii l = false -> literal t l = None.
Proof. intros H. unfold literal. rewrite H. reflexivity. Qed.

Theorem literal_bad_char_rejected pre c post :
  macro_char t c = None -> literal t (pre ++ c :: post) = None.
Proof.
  intros H. unfold literal. destruct (is_ascii (pre ++ c :: post)); [|reflexivity].
  induction pre as [|p pre IH]; cbn [app macro_seq].
  - rewrite H. reflexivity.
  - destruct (macro_char t p) as [[n b]|]; [|reflexivity]. rewrite IH. reflexivity.
Qed.

End MacroThm.

(* ---------------- comparison with the compiled programs ---------------- *)
(* observation of a literal in the generated program:
   [len; codes...] , display bytes , [eq; hash-eq; display-eq] against runtime parsing (2 = the
   runtime parser rejects the text) *)
Definition lit_obs (C : codec) (t : mtab) (l : list N) : option (list N * list N * list N) :=
  match literal t l with
  | None => None
  | Some v =>
      let s := seqarray_deref (c_bits C) v in
      match iter C s, display C s with
      | Some xs, Some d =>
          let rt := match parse C l with
                    | inl r => let e := if bits_eqb s r then 1%N else 0%N in [e; e; e]
                    | inr _ => [2; 2; 2]%N
                    end in
          Some (N.of_nat (slen C s) :: xs, d, rt)
      | _, _ => None
      end
  end.

Definition kmer_obs (C : codec) (t : mtab) (l : list N) : option N :=
  match literal t l with
  | None => None
  | Some v => Some (of_bits (seqarray_deref (c_bits C) v))
  end.
