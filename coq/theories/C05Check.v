(* C05Check.v — the codec tables of the compiled code against the documented alphabets.
   Every statement quantifies over ALL 256 byte values; the boolean checkers enumerate them
   completely and are proved sound, so `check = true` (by vm_compute on the regenerated tables)
   is a proof of the forall-statement, not a sample. *)
From Coq Require Import List Arith NArith Lia Bool.
From BioSeq Require Import Bits Codec Tables Spec Derive.
Import ListNotations.
Local Open Scope N_scope.

Lemma forall_bytes (f : N -> bool) :
  forallb f bytes256 = true -> forall b, b < 256 -> f b = true.
Proof.
  intros H b Hb. rewrite forallb_forall in H. apply H. apply bytes256_in. exact Hb.
Qed.

Definition assoc (l : list (N * N)) (k : N) : option N :=
  option_map snd (find (fun p => fst p =? k) l).

(* ---------------- 2-bit DNA ---------------- *)
Record dna_spec (C : codec) : Prop := {
  dna_bits : c_bits C = 2%nat;
  dna_items : c_items C = [dA; dC; dG; dT];
  dna_try_bits : forall b, b < 256 -> try_bits C b = if b <? 4 then Some b else None;
  dna_try_ascii : forall c, c < 256 ->
      try_ascii C c = assoc (map (fun p => (snd p, fst p)) dna_doc) c;
  dna_char : forall x, x < 4 -> to_char C x = assoc dna_doc x;
  dna_comp : forall x, x < 4 -> comp_sym C x = Some (dna_comp_doc x)
}.

Definition dna_check (C : codec) : bool :=
  (c_bits C =? 2)%nat && nlist_eqb (c_items C) [dA; dC; dG; dT] &&
  forallb (fun b => opt_eqb (try_bits C b) (if b <? 4 then Some b else None)) bytes256 &&
  forallb (fun c => opt_eqb (try_ascii C c) (assoc (map (fun p => (snd p, fst p)) dna_doc) c)) bytes256 &&
  forallb (fun x => if x <? 4 then opt_eqb (to_char C x) (assoc dna_doc x) &&
                                   opt_eqb (comp_sym C x) (Some (dna_comp_doc x)) else true) bytes256.

Lemma nlist_eqb_eq a b : nlist_eqb a b = true -> a = b.
Proof.
  unfold nlist_eqb. revert b. induction a as [|x a IH]; intros [|y b] H; simpl in *;
    try reflexivity; try discriminate.
  apply andb_prop in H. destruct H as [Hl H]. apply andb_prop in H. destruct H as [Hxy H].
  apply N.eqb_eq in Hxy. subst. f_equal. apply IH. rewrite Hl. exact H.
Qed.

Theorem dna_check_sound C : dna_check C = true -> dna_spec C.
Proof.
  unfold dna_check. intro H.
  apply andb_prop in H. destruct H as [H H5].
  apply andb_prop in H. destruct H as [H H4].
  apply andb_prop in H. destruct H as [H H3].
  apply andb_prop in H. destruct H as [H H2].
  constructor.
  - apply Nat.eqb_eq. exact H.
  - apply nlist_eqb_eq. exact H2.
  - intros b Hb. apply opt_eqb_spec. apply (forall_bytes _ H3 b Hb).
  - intros c Hc. apply opt_eqb_spec. apply (forall_bytes _ H4 c Hc).
  - intros x Hx. assert (Hb : x < 256) by lia. pose proof (forall_bytes _ H5 x Hb) as E.
    cbv beta in E. apply N.ltb_lt in Hx. rewrite Hx in E. apply andb_prop in E.
    apply opt_eqb_spec. tauto.
  - intros x Hx. assert (Hb : x < 256) by lia. pose proof (forall_bytes _ H5 x Hb) as E.
    cbv beta in E. apply N.ltb_lt in Hx. rewrite Hx in E. apply andb_prop in E.
    apply opt_eqb_spec. tauto.
Qed.

(* ---------------- IUPAC: codes are nucleotide sets ---------------- *)
Record iupac_spec (C : codec) : Prop := {
  iu_bits : c_bits C = 4%nat;
  (* each documented letter parses to the code of its documented set, and displays back *)
  iu_letters : forall l s, In (l, s) iupac_sets ->
      try_ascii C l = Some (set_code s) /\ to_char C (set_code s) = Some l /\
      In (set_code s) (c_items C);
  iu_items_len : length (c_items C) = 16%nat;
  (* no other byte parses *)
  iu_only : forall c, c < 256 -> (forall l s, In (l, s) iupac_sets -> l <> c) -> try_ascii C c = None;
  iu_try_bits : forall b, b < 256 -> try_bits C b = if b <? 16 then Some b else None;
  (* complement complements each member of the set *)
  iu_comp : forall x, x < 16 ->
      comp_sym C x = Some (set_code (map dna_comp_doc (code_set x)))
}.

Definition iupac_check (C : codec) : bool :=
  (c_bits C =? 4)%nat &&
  forallb (fun p => opt_eqb (try_ascii C (fst p)) (Some (set_code (snd p))) &&
                    opt_eqb (to_char C (set_code (snd p))) (Some (fst p)) &&
                    inb (set_code (snd p)) (c_items C)) iupac_sets &&
  (length (c_items C) =? 16)%nat &&
  forallb (fun c => if existsb (fun p => fst p =? c) iupac_sets then true
                    else opt_eqb (try_ascii C c) None) bytes256 &&
  forallb (fun b => opt_eqb (try_bits C b) (if b <? 16 then Some b else None)) bytes256 &&
  forallb (fun x => if x <? 16
                    then opt_eqb (comp_sym C x) (Some (set_code (map dna_comp_doc (code_set x))))
                    else true) bytes256.

Theorem iupac_check_sound C : iupac_check C = true -> iupac_spec C.
Proof.
  unfold iupac_check. intro H.
  apply andb_prop in H. destruct H as [H H6].
  apply andb_prop in H. destruct H as [H H5].
  apply andb_prop in H. destruct H as [H H4].
  apply andb_prop in H. destruct H as [H H3].
  apply andb_prop in H. destruct H as [H H2].
  constructor.
  - apply Nat.eqb_eq. exact H.
  - intros l s Hin. rewrite forallb_forall in H2. specialize (H2 (l, s) Hin). cbn [fst snd] in H2.
    apply andb_prop in H2. destruct H2 as [H2 Hi]. apply andb_prop in H2. destruct H2 as [Ha Hc].
    repeat split; [apply opt_eqb_spec; exact Ha | apply opt_eqb_spec; exact Hc | apply inb_spec; exact Hi].
  - apply Nat.eqb_eq. exact H3.
  - intros c Hc Hno. pose proof (forall_bytes _ H4 c Hc) as E. cbv beta in E.
    destruct (existsb (fun p => fst p =? c) iupac_sets) eqn:Ex.
    + apply existsb_exists in Ex. destruct Ex as [[l s] [Hin El]]. cbn [fst] in El.
      apply N.eqb_eq in El. exfalso. exact (Hno l s Hin El).
    + apply opt_eqb_spec. exact E.
  - intros b Hb. apply opt_eqb_spec. apply (forall_bytes _ H5 b Hb).
  - intros x Hx. assert (Hb : x < 256) by lia. pose proof (forall_bytes _ H6 x Hb) as E.
    cbv beta in E. apply N.ltb_lt in Hx. rewrite Hx in E. apply opt_eqb_spec. exact E.
Qed.

(* ---------------- amino acids: codes are codons (little-endian 2-bit bases) ---------------- *)
Definition codon_letter (b : N) : N := ncbi1 (b mod 4) ((b / 4) mod 4) (b / 16).

Record amino_spec (C : codec) : Prop := {
  am_bits : c_bits C = 6%nat;
  (* every 6-bit pattern, read as a DNA codon, decodes to the amino acid the standard genetic
     code assigns to that codon (so each symbol's code and all its alternatives are its codons) *)
  am_codons : forall b, b < 64 -> exists s, try_bits C b = Some s /\ to_char C s = Some (codon_letter b);
  am_refuse : forall b, 64 <= b -> b < 256 -> try_bits C b = None;
  am_items_len : length (c_items C) = 21%nat
}.

Definition amino_check (C : codec) : bool :=
  (c_bits C =? 6)%nat &&
  forallb (fun b => if b <? 64
                    then match try_bits C b with
                         | Some s => opt_eqb (to_char C s) (Some (codon_letter b))
                         | None => false
                         end
                    else opt_eqb (try_bits C b) None) bytes256 &&
  (length (c_items C) =? 21)%nat.

Theorem amino_check_sound C : amino_check C = true -> amino_spec C.
Proof.
  unfold amino_check. intro H.
  apply andb_prop in H. destruct H as [H H3]. apply andb_prop in H. destruct H as [H1 H2].
  constructor.
  - apply Nat.eqb_eq. exact H1.
  - intros b Hb. assert (Hb' : b < 256) by lia. pose proof (forall_bytes _ H2 b Hb') as E.
    cbv beta in E. apply N.ltb_lt in Hb. rewrite Hb in E.
    destruct (try_bits C b) as [s|]; [|discriminate]. exists s. split; [reflexivity|].
    apply opt_eqb_spec. exact E.
  - intros b Hlo Hhi. pose proof (forall_bytes _ H2 b Hhi) as E. cbv beta in E.
    assert (Hf : (b <? 64) = false) by (apply N.ltb_ge; exact Hlo). rewrite Hf in E.
    apply opt_eqb_spec. exact E.
  - apply Nat.eqb_eq. exact H3.
Qed.

(* ---------------- 8-bit text ---------------- *)
Record text_spec (C : codec) : Prop := {
  tx_bits : c_bits C = 8%nat;
  tx_items : c_items C = text_doc;
  (* a literal interpretation of bytes: a byte never decodes to a DIFFERENT byte, the five
     documented letters decode to themselves and display as themselves (the codec documents that
     every byte is accepted; refusing undocumented bytes would also satisfy the property) *)
  tx_try_bits : forall b, b < 256 -> try_bits C b = Some b \/ (try_bits C b = None /\ ~ In b text_doc);
  tx_char : forall b, In b text_doc -> to_char C b = Some b;
  tx_try_ascii : forall c, c < 256 -> try_ascii C c = if inb c text_doc then Some c else None
}.
Definition text_check (C : codec) : bool :=
  (c_bits C =? 8)%nat && nlist_eqb (c_items C) text_doc &&
  forallb (fun b => opt_eqb (try_bits C b) (Some b) ||
                    (opt_eqb (try_bits C b) None && negb (inb b text_doc))) bytes256 &&
  forallb (fun b => opt_eqb (to_char C b) (Some b)) text_doc &&
  forallb (fun c => opt_eqb (try_ascii C c) (if inb c text_doc then Some c else None)) bytes256.
Theorem text_check_sound C : text_check C = true -> text_spec C.
Proof.
  unfold text_check. intro H.
  apply andb_prop in H. destruct H as [H H5]. apply andb_prop in H. destruct H as [H H4].
  apply andb_prop in H. destruct H as [H H3]. apply andb_prop in H. destruct H as [H1 H2].
  constructor.
  - apply Nat.eqb_eq. exact H1.
  - apply nlist_eqb_eq. exact H2.
  - intros b Hb. pose proof (forall_bytes _ H3 b Hb) as E. cbv beta in E.
    apply orb_prop in E. destruct E as [E|E].
    + left. apply opt_eqb_spec. exact E.
    + right. apply andb_prop in E. destruct E as [E1 E2]. split; [apply opt_eqb_spec; exact E1|].
      intro Hin. apply inb_spec in Hin. rewrite Hin in E2. discriminate.
  - intros b Hb. rewrite forallb_forall in H4. apply opt_eqb_spec. apply H4. exact Hb.
  - intros c Hc. apply opt_eqb_spec. apply (forall_bytes _ H5 c Hc).
Qed.

(* ---------------- 1-bit degenerate ---------------- *)
Record degen_spec (C : codec) : Prop := {
  dg_bits : c_bits C = 1%nat;
  dg_try_bits : forall b, b < 256 -> try_bits C b = if b <? 2 then Some b else None;
  dg_try_ascii : forall c, c < 256 -> try_ascii C c = assoc degen_ascii_doc c;
  dg_char : forall x, x < 2 -> to_char C x = assoc degen_char_doc x;
  dg_comp : forall x, x < 2 -> comp_sym C x = Some x
}.
Definition degen_check (C : codec) : bool :=
  (c_bits C =? 1)%nat &&
  forallb (fun b => opt_eqb (try_bits C b) (if b <? 2 then Some b else None)) bytes256 &&
  forallb (fun c => opt_eqb (try_ascii C c) (assoc degen_ascii_doc c)) bytes256 &&
  forallb (fun x => if x <? 2 then opt_eqb (to_char C x) (assoc degen_char_doc x) &&
                                   opt_eqb (comp_sym C x) (Some x) else true) bytes256.
Theorem degen_check_sound C : degen_check C = true -> degen_spec C.
Proof.
  unfold degen_check. intro H.
  apply andb_prop in H. destruct H as [H H4]. apply andb_prop in H. destruct H as [H H3].
  apply andb_prop in H. destruct H as [H1 H2].
  constructor.
  - apply Nat.eqb_eq. exact H1.
  - intros b Hb. apply opt_eqb_spec. apply (forall_bytes _ H2 b Hb).
  - intros c Hc. apply opt_eqb_spec. apply (forall_bytes _ H3 c Hc).
  - intros x Hx. assert (Hb : x < 256) by lia. pose proof (forall_bytes _ H4 x Hb) as E.
    cbv beta in E. apply N.ltb_lt in Hx. rewrite Hx in E. apply andb_prop in E.
    apply opt_eqb_spec. tauto.
  - intros x Hx. assert (Hb : x < 256) by lia. pose proof (forall_bytes _ H4 x Hb) as E.
    cbv beta in E. apply N.ltb_lt in Hx. rewrite Hx in E. apply andb_prop in E.
    apply opt_eqb_spec. tauto.
Qed.

(* ---------------- complements of any complementable codec pair the documented letters ------- *)
(* for every item whose display letter has a documented complement letter, the complement symbol
   displays as that letter *)
Definition comp_letters_ok (C : codec) : Prop :=
  forall x c c', In x (c_items C) -> to_char C x = Some c -> comp_letter c = Some c' ->
     exists y, comp_sym C x = Some y /\ to_char C y = Some c'.
Definition comp_letters_check (C : codec) : bool :=
  forallb (fun x => match to_char C x with
                    | Some c => match comp_letter c with
                                | Some c' => match comp_sym C x with
                                             | Some y => opt_eqb (to_char C y) (Some c')
                                             | None => false
                                             end
                                | None => true
                                end
                    | None => true
                    end) (c_items C).
Theorem comp_letters_sound C : comp_letters_check C = true -> comp_letters_ok C.
Proof.
  unfold comp_letters_check, comp_letters_ok. intros H x c c' Hx Hc Hc'.
  rewrite forallb_forall in H. specialize (H x Hx). rewrite Hc, Hc' in H.
  destruct (comp_sym C x) as [y|]; [|discriminate]. exists y. split; [reflexivity|].
  apply opt_eqb_spec. exact H.
Qed.

(* ---------------- witnesses: the first failing byte of a 256-sweep ---------------- *)
Definition first_bad (f : N -> bool) : option N := find (fun b => negb (f b)) bytes256.

(* which clause of codec_ok fails, and where: (clause number, byte or item) *)
Definition codec_ok_witness (C : codec) : option (N * N) :=
  if negb (Nat.leb 1 (c_bits C) && Nat.leb (c_bits C) 8) then Some (1, N.of_nat (c_bits C))
  else if negb (Nat.eqb (length (c_try_bits C)) 256 && Nat.eqb (length (c_try_ascii C)) 256)
  then Some (7, 0)
  else if negb (nodupb (c_items C)) then Some (2, 0)
  else match find (fun x => negb (item_okb C x)) (c_items C) with
  | Some x => Some (3, x)
  | None =>
    match first_bad (try_bits_okb C) with
    | Some b => Some (4, b)
    | None =>
      match first_bad (try_ascii_okb C) with
      | Some b => Some (5, b)
      | None => if char_injb C then None else Some (6, 0)
      end
    end
  end.
