(* Codec.v — a codec as the extensional tables regenerated from the compiled code.
   A symbol is identified with its canonical bit code (Codec::to_bits).  Every function of the
   Codec trait has domain u8, so a codec IS seven 256-entry tables plus BITS and items(). *)
From Coq Require Import List Arith NArith Lia Bool.
From BioSeq Require Import Bits.
Import ListNotations.
Set Implicit Arguments.

(* 256-entry table lookup; index outside the table = None *)
Definition tget (t : list (option N)) (b : N) : option N := nth (N.to_nat b) t None.

Record codec := {
  c_bits : nat;                        (* Codec::BITS *)
  c_items : list N;                    (* items().map(to_bits), in order *)
  c_try_bits : list (option N);        (* try_from_bits(b).map(to_bits) *)
  c_un_bits : list (option N);         (* unsafe_from_bits(b).to_bits(); None = panic *)
  c_try_ascii : list (option N);       (* try_from_ascii(c).map(to_bits) *)
  c_un_ascii : list (option N);        (* unsafe_from_ascii(c).to_bits(); None = panic *)
  c_char : list (option N);            (* indexed by canonical code: to_char as a byte *)
  c_comp : list (option N);            (* indexed by canonical code: ComplementMut (None = panic / not a symbol) *)
  c_has_comp : bool;                   (* is ComplementMut implemented *)
  c_mask : list (option N);
  c_unmask : list (option N);
  c_has_mask : bool
}.

Section WithCodec.
Variable C : codec.

Definition try_bits := tget (c_try_bits C).
Definition un_bits := tget (c_un_bits C).
Definition try_ascii := tget (c_try_ascii C).
Definition un_ascii := tget (c_un_ascii C).
Definition to_char := tget (c_char C).
Definition comp_sym := tget (c_comp C).
Definition mask_sym := tget (c_mask C).
Definition unmask_sym := tget (c_unmask C).

(* a canonical code: a bit pattern that decodes (unchecked) to the symbol with that very code *)
Definition canon (x : N) : Prop := un_bits x = Some x.
Definition canonb (x : N) : bool :=
  match un_bits x with Some y => N.eqb y x | None => false end.

Lemma canonb_spec x : canonb x = true <-> canon x.
Proof.
  unfold canonb, canon. destruct (un_bits x) as [y|]; split; intro H; try discriminate.
  - apply N.eqb_eq in H. now subst.
  - inversion H. apply N.eqb_refl.
Qed.

Definition bytes256 : list N := map N.of_nat (seq 0 256).

Lemma bytes256_in b : (b < 256)%N <-> In b bytes256.
Proof.
  unfold bytes256. rewrite in_map_iff. split.
  - intro H. exists (N.to_nat b). split; [apply N2Nat.id|]. apply in_seq. lia.
  - intros [n [<- Hn]]. apply in_seq in Hn. lia.
Qed.

Definition opt_eqb (a b : option N) : bool :=
  match a, b with
  | Some x, Some y => N.eqb x y
  | None, None => true
  | _, _ => false
  end.

Lemma opt_eqb_spec a b : opt_eqb a b = true <-> a = b.
Proof.
  destruct a, b; simpl; split; intro H; try discriminate; try reflexivity.
  - apply N.eqb_eq in H. now subst.
  - inversion H. apply N.eqb_refl.
Qed.

Fixpoint nodupb (l : list N) : bool :=
  match l with
  | [] => true
  | x :: t => negb (existsb (N.eqb x) t) && nodupb t
  end.

Lemma nodupb_spec l : nodupb l = true -> NoDup l.
Proof.
  induction l as [|x t IH]; simpl; intro H; constructor.
  - apply andb_prop in H. destruct H as [H _]. intro Hin.
    apply negb_true_iff in H. assert (existsb (N.eqb x) t = true); [|congruence].
    apply existsb_exists. exists x. split; auto. apply N.eqb_refl.
  - apply IH. apply andb_prop in H. tauto.
Qed.

Definition inb (x : N) (l : list N) : bool := existsb (N.eqb x) l.
Lemma inb_spec x l : inb x l = true <-> In x l.
Proof.
  unfold inb. rewrite existsb_exists. split.
  - intros [y [Hy E]]. apply N.eqb_eq in E. now subst.
  - intro H. exists x. split; auto. apply N.eqb_refl.
Qed.

(* ------------------------------------------------------------------ *)
(* codec_ok: what the sequence-level theorems need of a codec.             *)

Record codec_ok : Prop := {
  ok_bits_pos : 1 <= c_bits C;
  ok_bits_le8 : c_bits C <= 8;
  ok_items_nodup : NoDup (c_items C);
  (* the decoders have domain u8: the tables have exactly 256 entries *)
  ok_len_try_bits : length (c_try_bits C) = 256;
  ok_len_try_ascii : length (c_try_ascii C) = 256;
  (* every item fits the width, decodes from its own code by both bit decoders, and has a
     display byte that parses back to it by both ASCII decoders *)
  ok_item : forall x, In x (c_items C) ->
      small (c_bits C) x /\ try_bits x = Some x /\ un_bits x = Some x /\
      exists ch, to_char x = Some ch /\ (ch < 256)%N /\
                 try_ascii ch = Some x /\ un_ascii ch = Some x;
  (* whatever the fallible bit decoder accepts is a canonical code that fits the width, and
     the unchecked decoder returns the same symbol *)
  ok_try_bits : forall b s, (b < 256)%N -> try_bits b = Some s ->
      small (c_bits C) s /\ canon s /\ un_bits b = Some s;
  (* whatever the fallible ASCII decoder accepts is an item, and the unchecked decoder agrees *)
  ok_try_ascii : forall c s, (c < 256)%N -> try_ascii c = Some s ->
      In s (c_items C) /\ un_ascii c = Some s;
  (* distinct items display differently *)
  ok_char_inj : forall x y ch, In x (c_items C) -> In y (c_items C) ->
      to_char x = Some ch -> to_char y = Some ch -> x = y
}.

Definition item_okb (x : N) : bool :=
  N.ltb x (2 ^ N.of_nat (c_bits C)) &&
  opt_eqb (try_bits x) (Some x) && opt_eqb (un_bits x) (Some x) &&
  match to_char x with
  | Some ch => N.ltb ch 256 && opt_eqb (try_ascii ch) (Some x) && opt_eqb (un_ascii ch) (Some x)
  | None => false
  end.

Definition try_bits_okb (b : N) : bool :=
  match try_bits b with
  | Some s => N.ltb s (2 ^ N.of_nat (c_bits C)) && canonb s && opt_eqb (un_bits b) (Some s)
  | None => true
  end.

Definition try_ascii_okb (c : N) : bool :=
  match try_ascii c with
  | Some s => inb s (c_items C) && opt_eqb (un_ascii c) (Some s)
  | None => true
  end.

Definition char_injb : bool :=
  forallb (fun x => forallb (fun y =>
     match to_char x, to_char y with
     | Some a, Some b => if N.eqb a b then N.eqb x y else true
     | _, _ => true
     end) (c_items C)) (c_items C).

Definition codec_okb : bool :=
  Nat.leb 1 (c_bits C) && Nat.leb (c_bits C) 8 &&
  Nat.eqb (length (c_try_bits C)) 256 && Nat.eqb (length (c_try_ascii C)) 256 &&
  nodupb (c_items C) &&
  forallb item_okb (c_items C) &&
  forallb try_bits_okb bytes256 && forallb try_ascii_okb bytes256 && char_injb.

Theorem codec_okb_sound : codec_okb = true -> codec_ok.
Proof.
  unfold codec_okb. intro H.
  repeat (apply andb_prop in H; destruct H as [H ?]).
  match goal with h : char_injb = true |- _ => rename h into Hinj end.
  match goal with h : forallb try_ascii_okb _ = true |- _ => rename h into Hasc end.
  match goal with h : forallb try_bits_okb _ = true |- _ => rename h into Hbits end.
  match goal with h : forallb item_okb _ = true |- _ => rename h into Hitem end.
  match goal with h : nodupb _ = true |- _ => rename h into Hnd end.
  match goal with h : Nat.leb (c_bits C) 8 = true |- _ => rename h into H8 end.
  match goal with h : Nat.eqb (length (c_try_bits C)) 256 = true |- _ => rename h into Hlb end.
  match goal with h : Nat.eqb (length (c_try_ascii C)) 256 = true |- _ => rename h into Hla end.
  constructor.
  - apply Nat.leb_le; assumption.
  - apply Nat.leb_le; assumption.
  - apply nodupb_spec; assumption.
  - apply Nat.eqb_eq; assumption.
  - apply Nat.eqb_eq; assumption.
  - intros x Hx. rewrite forallb_forall in Hitem. specialize (Hitem x Hx).
    unfold item_okb in Hitem.
    apply andb_prop in Hitem. destruct Hitem as [Hitem Hch].
    apply andb_prop in Hitem. destruct Hitem as [Hitem Hun].
    apply andb_prop in Hitem. destruct Hitem as [Hlt Htry].
    destruct (to_char x) as [ch|] eqn:Ech; [|discriminate].
    apply andb_prop in Hch. destruct Hch as [Hch Hua].
    apply andb_prop in Hch. destruct Hch as [Hc256 Hta].
    split; [apply N.ltb_lt; exact Hlt|].
    split; [apply opt_eqb_spec; exact Htry|].
    split; [apply opt_eqb_spec; exact Hun|].
    exists ch. split; [reflexivity|].
    split; [apply N.ltb_lt; exact Hc256|].
    split; apply opt_eqb_spec; assumption.
  - intros b s Hb Hs. rewrite forallb_forall in Hbits.
    specialize (Hbits b (proj1 (bytes256_in b) Hb)). unfold try_bits_okb in Hbits.
    rewrite Hs in Hbits.
    repeat (apply andb_prop in Hbits; destruct Hbits as [Hbits ?]).
    repeat split.
    + apply N.ltb_lt; assumption.
    + apply canonb_spec; assumption.
    + apply opt_eqb_spec; assumption.
  - intros c s Hc Hs. rewrite forallb_forall in Hasc.
    specialize (Hasc c (proj1 (bytes256_in c) Hc)). unfold try_ascii_okb in Hasc.
    rewrite Hs in Hasc. apply andb_prop in Hasc. destruct Hasc as [H1 H2].
    split; [apply inb_spec | apply opt_eqb_spec]; assumption.
  - intros x y ch Hx Hy Ex Ey. unfold char_injb in Hinj.
    rewrite forallb_forall in Hinj. specialize (Hinj x Hx).
    rewrite forallb_forall in Hinj. specialize (Hinj y Hy).
    rewrite Ex, Ey, N.eqb_refl in Hinj. apply N.eqb_eq; assumption.
Qed.

Lemma tget_some_lt (t : list (option N)) b s :
  length t = 256 -> tget t b = Some s -> (b < 256)%N.
Proof.
  intros Hl H. unfold tget in H.
  destruct (Nat.lt_ge_cases (N.to_nat b) (length t)) as [Hlt|Hge].
  - rewrite Hl in Hlt. lia.
  - rewrite nth_overflow in H by exact Hge. discriminate.
Qed.

End WithCodec.
