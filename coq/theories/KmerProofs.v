(* KmerProofs.v — the k-mer model (storage integer) against lists of symbol codes:
   construction, display, deref, hashing (C02/C04/C08), rotation and push (C09), canonical form. *)
From Coq Require Import List Arith NArith Lia Bool.
From BioSeq Require Import Bits Codec SeqModel SeqProofs SeqProofs2 KmerModel.
Import ListNotations.

Section KmerProofs.
Variable C : codec.
Variable dbg : bool.
Hypothesis OK : codec_ok C.
Variable K : nat.
Variable W : nat.
Local Notation B := (c_bits C).
Hypothesis Kpos : 1 <= K.
Hypothesis Fits : K * B <= W.

Let Bpos := Bpos C OK.

(* the storage integer of a code list: sum of code_i * 2^(i*BITS) *)
Definition kval (xs : list N) : N := of_bits (encode B xs).

Lemma kval_pack xs : Forall (smallc C) xs -> kval xs = pack (2 ^ N.of_nat B) xs.
Proof. apply of_bits_encode. Qed.

(* canonical form: the value stays below 2^(K*BITS) *)
Theorem kval_canonical xs : length xs = K -> (kval xs < 2 ^ N.of_nat (K * B))%N.
Proof.
  intros HK. unfold kval. replace (K * B) with (length (encode B xs)).
  - apply of_bits_bound.
  - rewrite encode_length. lia.
Qed.

Lemma to_bitarray_kval xs :
  length xs = K -> to_bitarray W (kval xs) = encode B xs ++ repeat false (W - K * B).
Proof.
  intros HK. unfold to_bitarray, kval.
  replace W with (length (encode B xs) + (W - K * B)) at 1.
  - apply to_bits_of_bits_pad.
  - rewrite encode_length. lia.
Qed.

Lemma live_kval xs : length xs = K -> live C K W (kval xs) = Some (encode B xs).
Proof.
  intros HK. unfold live, bit_slice, kbits. rewrite to_bitarray_kval by exact HK.
  assert (E : (K * B <=? length (encode B xs ++ repeat false (W - K * B))) = true).
  { apply Nat.leb_le. rewrite app_length, encode_length. lia. }
  cbn [Nat.leb andb]. rewrite E. cbn [assert bind]. unfold ret. f_equal.
  rewrite Nat.sub_0_r. cbn [skipn].
  replace (K * B) with (length (encode B xs)) by (rewrite encode_length; lia).
  rewrite firstn_app, firstn_all, Nat.sub_diag, firstn_O, app_nil_r. reflexivity.
Qed.

Lemma from_bitslice_ok l :
  1 <= length l -> length l <= W -> from_bitslice W l = Some (of_bits l).
Proof.
  intros H1 H2. unfold from_bitslice.
  assert (E1 : (1 <=? length l) = true) by (apply Nat.leb_le; exact H1).
  assert (E2 : (length l <=? W) = true) by (apply Nat.leb_le; exact H2).
  rewrite E1, E2. reflexivity.
Qed.

Lemma from_bitslice_encode ys : length ys = K -> from_bitslice W (encode B ys) = Some (kval ys).
Proof.
  intros HK. apply from_bitslice_ok; rewrite encode_length; nia.
Qed.

(* ---------------- construction (C08) ---------------- *)
Theorem try_from_spec xs :
  try_from C dbg K W (encode B xs) =
    if length xs =? K then Some (inl (kval xs)) else Some (inr (KMismatch K (length xs))).
Proof.
  unfold try_from. rewrite (slen_encode C OK).
  destruct (length xs =? K) eqn:E; [|reflexivity].
  apply Nat.eqb_eq in E.
  rewrite (index_range_in C xs 0 K) by lia. cbn [bind skipn].
  replace (firstn (K - 0) xs) with xs
    by (rewrite Nat.sub_0_r, <- E; symmetry; apply firstn_all).
  unfold unsafe_from. rewrite (slen_encode C OK), E.
  rewrite Nat.eqb_refl, orb_true_r. cbn [assert bind].
  rewrite from_bitslice_encode by exact E. reflexivity.
Qed.

(* FromStr: succeeds exactly when the byte length is K and every byte is a symbol character *)
Theorem from_str_spec bs :
  from_str C dbg K W bs =
    if negb (length bs =? K) then Some (inr (KMismatch K (length bs)))
    else match parse C bs with
         | inr b => Some (inr (KBadBase b))
         | inl s => try_from C dbg K W s
         end.
Proof. reflexivity. Qed.

Theorem from_str_ok bs xs :
  length bs = K -> ascii_syms C bs = Some xs ->
  from_str C dbg K W bs = Some (inl (kval xs)).
Proof.
  intros HL HA. unfold from_str. rewrite HL, Nat.eqb_refl. cbn [negb].
  rewrite (parse_ok C bs xs HA). rewrite try_from_spec.
  assert (E : length xs = K).
  { unfold ascii_syms in HA. rewrite (mapM_length _ _ _ HA). exact HL. }
  rewrite E, Nat.eqb_refl. reflexivity.
Qed.

Theorem from_str_wrong_length bs :
  length bs <> K -> from_str C dbg K W bs = Some (inr (KMismatch K (length bs))).
Proof.
  intros H. unfold from_str. apply Nat.eqb_neq in H. rewrite H. reflexivity.
Qed.

(* ---------------- display, deref, conversion back (C08) ---------------- *)
Theorem kderef_spec xs : length xs = K -> kderef C K W (kval xs) = Some (encode B xs).
Proof. apply live_kval. Qed.

Theorem kdisplay_spec xs :
  length xs = K -> Forall (smallc C) xs -> canonl C xs ->
  kdisplay C K W (kval xs) = mapM (char_of C) xs.
Proof.
  intros HK Hs Hc. unfold kdisplay. rewrite live_kval by exact HK. cbn [bind].
  unfold encode. rewrite chunks_concat; [|exact Bpos|apply uniform_encode].
  rewrite mapM_premap.
  clear HK. induction xs as [|x xs IH]; cbn [mapM]; [reflexivity|].
  inversion Hs as [|? ? Hx Hxs]; inversion Hc as [|? ? Cx Cxs]; subst.
  unfold decode_chunk at 1. rewrite (to_u8_chunk C OK). cbn [bind].
  rewrite N.mod_small by exact Hx. unfold canon in Cx. rewrite Cx. cbn [bind].
  rewrite IH by assumption. reflexivity.
Qed.

Theorem kto_seq_spec xs :
  length xs = K -> Forall (smallc C) xs -> canonl C xs ->
  kto_seq C K W (kval xs) = Some (encode B xs).
Proof.
  intros HK Hs Hc. unfold kto_seq. rewrite live_kval by exact HK. cbn [bind].
  rewrite (iter_spec C OK) by assumption. cbn [bind]. unfold ret. now rewrite collect_spec.
Qed.

(* ---------------- equality with sequences, hashing (C02) ---------------- *)
Theorem keq_slice_spec xs ys :
  length xs = K -> Forall (smallc C) xs -> Forall (smallc C) ys ->
  keq_slice C dbg K W (kval xs) (encode B ys) =
    Some (if list_eq_dec N.eq_dec ys xs then true else false).
Proof.
  intros HK Hx Hy. unfold keq_slice. rewrite (slen_encode C OK).
  destruct (length ys =? K) eqn:E; cbn [negb].
  - apply Nat.eqb_eq in E. unfold unsafe_from. rewrite (slen_encode C OK), E, Nat.eqb_refl, orb_true_r.
    cbn [assert bind]. rewrite from_bitslice_encode by exact E. cbn [bind]. unfold ret. f_equal.
    destruct (list_eq_dec N.eq_dec ys xs) as [->|Hne]; [apply N.eqb_refl|].
    apply N.eqb_neq. intro H. apply Hne. unfold kval in H.
    apply (@encode_inj B ys xs Bpos Hy Hx). apply of_bits_inj; [|exact H].
    rewrite !encode_length. lia.
  - apply Nat.eqb_neq in E. unfold ret. f_equal.
    destruct (list_eq_dec N.eq_dec ys xs) as [->|]; [|reflexivity]. exfalso. apply E. exact HK.
Qed.

(* a k-mer hashes like the slice it was copied from *)
Theorem khash_feed_spec xs :
  length xs = K -> khash_feed C K W (kval xs) = Some (hash_feed C (encode B xs)).
Proof.
  intros HK. unfold khash_feed. rewrite live_kval by exact HK. cbn [bind]. unfold ret, hash_feed.
  now rewrite (slen_encode C OK), HK.
Qed.

(* ---------------- rotation (C09) ---------------- *)
Definition lrotl {A} (n : nat) (l : list A) : list A := skipn n l ++ firstn n l.
Definition lrotr {A} (n : nat) (l : list A) : list A := lrotl (length l - n) l.

Lemma rotl_encode m xs : rotl (m * B) (encode B xs) = encode B (lrotl m xs).
Proof.
  unfold rotl, lrotl. replace (m * B) with (B * m) by lia.
  now rewrite encode_skipn, encode_firstn, encode_app.
Qed.

Lemma lrotl_length {A} n (l : list A) : length (lrotl n l) = length l.
Proof.
  unfold lrotl. rewrite app_length, skipn_length, firstn_length. lia.
Qed.

Theorem rotated_left_spec xs n :
  length xs = K ->
  rotated_left C K W (kval xs) n =
    Some (kval (lrotl (N.to_nat (n mod N.of_nat K)) xs)).
Proof.
  intros HK. unfold rotated_left. rewrite live_kval by exact HK. cbn [bind].
  rewrite rotl_encode. apply from_bitslice_encode. now rewrite lrotl_length.
Qed.

Theorem rotated_right_spec xs n :
  length xs = K ->
  rotated_right C K W (kval xs) n =
    Some (kval (lrotr (N.to_nat (n mod N.of_nat K)) xs)).
Proof.
  intros HK. unfold rotated_right. rewrite live_kval by exact HK. cbn [bind].
  unfold rotr. rewrite encode_length.
  set (m := N.to_nat (n mod N.of_nat K)).
  assert (Hm : m < K).
  { unfold m. assert (n mod N.of_nat K < N.of_nat K)%N by (apply N.mod_lt; lia). lia. }
  replace (B * length xs - m * B) with ((length xs - m) * B) by nia.
  rewrite rotl_encode. unfold lrotr.
  apply from_bitslice_encode. now rewrite lrotl_length.
Qed.

(* ---------------- push (C09) ---------------- *)
Lemma firstn_app_l {A} n (a b : list A) : n <= length a -> firstn n (a ++ b) = firstn n a.
Proof.
  intros H. rewrite firstn_app. replace (n - length a) with 0 by lia.
  now rewrite firstn_O, app_nil_r.
Qed.

Lemma skipn_app_exact {A} (a b : list A) : skipn (length a) (a ++ b) = b.
Proof. rewrite skipn_app, skipn_all, Nat.sub_diag. reflexivity. Qed.

Theorem pushr_spec xs b :
  length xs = K ->
  pushr C K W (kval xs) b = Some (kval (skipn 1 xs ++ [b])).
Proof.
  intros HK. unfold pushr.
  replace 1%N with (N.of_nat 1) at 1 by reflexivity.
  rewrite rotated_left_spec by exact HK. cbn [bind].
  set (r := N.to_nat (N.of_nat 1 mod N.of_nat K)).
  set (ys := lrotl r xs).
  assert (Hy : length ys = K) by (unfold ys; now rewrite lrotl_length).
  rewrite to_bitarray_kval by exact Hy.
  unfold store_at, kbits.
  assert (E : (K * B - B + B <=? length (encode B ys ++ repeat false (W - K * B))) = true).
  { apply Nat.leb_le. rewrite app_length, encode_length, repeat_length. nia. }
  rewrite E. cbn [assert bind]. unfold ret at 1. cbn [bind].
  replace (K * B - B + B) with (length (encode B ys)) by (rewrite encode_length; nia).
  rewrite skipn_app_exact.
  replace (K * B - B) with (B * (K - 1)) by nia.
  rewrite firstn_app_l by (rewrite encode_length; nia).
  rewrite encode_firstn.
  assert (F : firstn (K - 1) ys = skipn 1 xs).
  { unfold ys, lrotl, r.
    destruct (Nat.eq_dec K 1) as [->|Hne].
    - cbn. destruct xs as [|x [|? ?]]; try discriminate. reflexivity.
    - assert (R : N.to_nat (N.of_nat 1 mod N.of_nat K) = 1).
      { rewrite N.mod_small by lia. reflexivity. }
      rewrite R. rewrite firstn_app_l by (rewrite skipn_length; lia).
      apply firstn_all2. rewrite skipn_length. lia. }
  rewrite F.
  assert (G : encode B (skipn 1 xs) ++ to_bits B b ++ repeat false (W - K * B) =
              encode B (skipn 1 xs ++ [b]) ++ repeat false (W - K * B)).
  { rewrite encode_app. unfold encode at 3. cbn [map concat]. now rewrite app_nil_r, <- app_assoc. }
  rewrite G.
  rewrite from_bitslice_ok.
  - f_equal. unfold kval. apply of_bits_app_zeros.
  - rewrite app_length, encode_length, app_length, skipn_length. cbn [length]. nia.
  - rewrite app_length, encode_length, app_length, skipn_length, repeat_length. cbn [length]. nia.
Qed.

Theorem pushl_spec xs b :
  length xs = K ->
  pushl C K W (kval xs) b = Some (kval (b :: firstn (K - 1) xs)).
Proof.
  intros HK. unfold pushl.
  replace 1%N with (N.of_nat 1) at 1 by reflexivity.
  rewrite rotated_right_spec by exact HK. cbn [bind].
  set (r := N.to_nat (N.of_nat 1 mod N.of_nat K)).
  set (ys := lrotr r xs).
  assert (Hy : length ys = K) by (unfold ys, lrotr; now rewrite lrotl_length).
  rewrite to_bitarray_kval by exact Hy.
  unfold store_at.
  assert (E : (0 + B <=? length (encode B ys ++ repeat false (W - K * B))) = true).
  { apply Nat.leb_le. rewrite app_length, encode_length. nia. }
  rewrite E. cbn [assert bind firstn app]. unfold ret at 1. cbn [bind].
  replace (0 + B) with (B * 1) by lia.
  rewrite skipn_app. rewrite encode_skipn.
  replace (B * 1 - length (encode B ys)) with 0 by (rewrite encode_length; nia).
  rewrite skipn_O.
  assert (F : skipn 1 ys = firstn (K - 1) xs).
  { unfold ys, lrotr, lrotl, r.
    destruct (Nat.eq_dec K 1) as [->|Hne].
    - cbn. destruct xs as [|x [|? ?]]; try discriminate. reflexivity.
    - assert (R : N.to_nat (N.of_nat 1 mod N.of_nat K) = 1).
      { rewrite N.mod_small by lia. reflexivity. }
      rewrite R, HK.
      assert (L : length (skipn (K - 1) xs) = 1) by (rewrite skipn_length; lia).
      destruct (skipn (K - 1) xs) as [|z [|? ?]] eqn:S; cbn [length] in L; try lia.
      cbn [app skipn]. reflexivity. }
  rewrite F.
  assert (G : to_bits B b ++ encode B (firstn (K - 1) xs) ++ repeat false (W - K * B) =
              encode B (b :: firstn (K - 1) xs) ++ repeat false (W - K * B)).
  { unfold encode at 2. cbn [map concat]. now rewrite <- app_assoc. }
  rewrite G.
  rewrite from_bitslice_ok.
  - f_equal. unfold kval. apply of_bits_app_zeros.
  - rewrite app_length, encode_length. cbn [length]. nia.
  - rewrite app_length, encode_length, repeat_length. cbn [length]. rewrite firstn_length. nia.
Qed.

(* ---------------- reverse for codecs that are not 2 bits wide (after fix F6) ---------------- *)
Theorem krev_generic_spec xs :
  length xs = K -> (B =? 2) = false ->
  krev C K W (kval xs) = Some (kval (rev xs)).
Proof.
  intros HK HB. unfold krev. rewrite HB. rewrite live_kval by exact HK. cbn [bind].
  rewrite encode_rev by exact Bpos. apply from_bitslice_encode. now rewrite rev_length.
Qed.

End KmerProofs.
