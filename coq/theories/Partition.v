(* Partition.v — what the items named by C11_windows / C11_chunks add up to, on plain lists:
   the chunks of width w are pairwise adjacent, each exactly w long, and concatenated give back
   the first (length xs / w) * w symbols — only the incomplete tail is dropped, nothing is
   repeated or skipped; every window is exactly w long and window i starts at symbol i. *)
From Coq Require Import List Arith NArith Lia Bool.
From BioSeq Require Import Bits Codec Tables SeqModel SeqProofs IterProofs Refine Nested.
Import ListNotations.

Lemma firstn_add_sub (xs : list N) a w :
  a <= length xs -> firstn a xs ++ sub xs a w = firstn (a + w) xs.
Proof.
  intros Ha. unfold sub.
  set (l1 := firstn a xs). set (l2 := skipn a xs).
  assert (E : xs = l1 ++ l2) by (symmetry; apply firstn_skipn).
  assert (L : length l1 = a) by (unfold l1; rewrite firstn_length; lia).
  rewrite E at 1. rewrite firstn_app, L.
  rewrite (firstn_all2 l1) by lia.
  replace (a + w - a) with w by lia. reflexivity.
Qed.

Theorem chunks_concat_prefix (xs : list N) w n :
  n * w <= length xs ->
  concat (map (fun k => sub xs (k * w) w) (seq 0 n)) = firstn (n * w) xs.
Proof.
  induction n as [|n IH]; intros Hn.
  - reflexivity.
  - rewrite seq_S, map_app, concat_app. cbn [map concat plus].
    rewrite app_nil_r, IH by lia. rewrite firstn_add_sub by lia.
    f_equal. lia.
Qed.

Theorem chunks_partition (xs : list N) w :
  1 <= w ->
  let cs := map (fun k => sub xs (k * w) w) (seq 0 (length xs / w)) in
  concat cs = firstn (length xs / w * w) xs /\
  Forall (fun c => length c = w) cs /\
  length xs - length (concat cs) < w.
Proof.
  intros Hw cs.
  assert (Hd : length xs / w * w <= length xs) by (rewrite Nat.mul_comm; apply Nat.mul_div_le; lia).
  assert (E : concat cs = firstn (length xs / w * w) xs) by (apply chunks_concat_prefix; exact Hd).
  split; [exact E|]. split.
  - apply Forall_forall. intros c Hc. apply in_map_iff in Hc. destruct Hc as (k & <- & Hk).
    apply in_seq in Hk. apply sub_length.
    assert (S k * w <= length xs / w * w) by (apply Nat.mul_le_mono_r; lia). lia.
  - rewrite E, firstn_length, Nat.min_l by exact Hd.
    pose proof (Nat.div_mod (length xs) w ltac:(lia)) as DM.
    pose proof (Nat.mod_upper_bound (length xs) w ltac:(lia)). lia.
Qed.

Theorem windows_items (xs : list N) w i :
  1 <= w -> In i (seq 0 (length xs + 1 - w)) ->
  length (sub xs i w) = w /\ forall j, j < w -> nth j (sub xs i w) 0%N = nth (i + j) xs 0%N.
Proof.
  intros Hw Hi. apply in_seq in Hi.
  split; [apply sub_length; lia|]. intros j Hj. apply sub_nth; lia.
Qed.

(* consecutive windows overlap in w - 1 symbols: window i without its first symbol is window i + 1
   without its last *)
Theorem windows_overlap (xs : list N) w i :
  skipn 1 (sub xs i w) = firstn (w - 1) (sub xs (i + 1) w).
Proof.
  unfold sub. rewrite skipn_firstn_comm, skipn_skipn', firstn_firstn.
  replace (Init.Nat.min (w - 1) w) with (w - 1) by lia. reflexivity.
Qed.

Example chunks_example :
  map (fun k => sub [0;1;2;3;0;1;2]%N (k * 3) 3) (seq 0 (7 / 3)) = [[0;1;2];[3;0;1]]%N.
Proof. reflexivity. Qed.
