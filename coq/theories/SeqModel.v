(* SeqModel.v — executable model of Seq / SeqSlice (bio-seq/src/seq.rs, seq/slice.rs,
   seq/index.rs, seq/iterators.rs), one definition per Rust function, at bit level.
   A sequence value is its live bit list; a Rust panic is [None] of the [res] monad.
   [dbg] = debug assertions enabled (dev profile). *)
From Coq Require Import List Arith NArith Lia Bool.
From BioSeq Require Import Bits Codec.
Import ListNotations.
Set Implicit Arguments.

(* Rust panics are values *)
Definition res (A : Type) := option A.
Definition ret {A} (a : A) : res A := Some a.
Definition bind {A B} (m : res A) (f : A -> res B) : res B :=
  match m with Some a => f a | None => None end.
Notation "'do' x <- m ; k" := (bind m (fun x => k))
  (at level 200, x name, m at level 100, k at level 200, right associativity).
Definition assert (b : bool) : res unit := if b then Some tt else None.

Fixpoint mapM {A B} (f : A -> res B) (l : list A) : res (list B) :=
  match l with
  | [] => ret []
  | x :: t => do y <- f x; do r <- mapM f t; ret (y :: r)
  end.

Inductive collected (A : Type) := Done (l : list A) | OutOfFuel.
Arguments OutOfFuel {A}.
Arguments Done {A} l.

Section Model.
Variable C : codec.
Variable dbg : bool.

Let B := c_bits C.

(* ---------------- lengths, slicing (seq/index.rs) ---------------- *)
Definition slen (s : bits) : nat := length s / B.

(* &bs[a..b] on the underlying BitSlice: panics when a > b or b > len *)
Definition bit_slice (s : bits) (a b : nat) : res bits :=
  do _ <- assert ((a <=? b) && (b <=? length s));
  ret (firstn (b - a) (skipn a s)).

(* the seven Index impls; form: 0 a..b | 1 a..=b | 2 ..b | 3 ..=b | 4 a.. | 5 .. | 6 [a] *)
Definition index (s : bits) (form : N) (a b : nat) : res bits :=
  match form with
  | 0%N => bit_slice s (a * B) (b * B)
  | 1%N => bit_slice s (a * B) ((b + 1) * B)
  | 2%N => bit_slice s 0 (b * B)
  | 3%N => bit_slice s 0 ((b + 1) * B)
  | 4%N => bit_slice s (a * B) (length s)
  | 5%N => ret s
  | _ => bit_slice s (a * B) (a * B + B)
  end.

(* ---------------- symbol access (seq/slice.rs, iterators.rs) ---------------- *)
(* From<&SeqSlice> for u8: debug_assert len <= 8 ; load_le::<u8> panics on 0 or > 8 bits *)
Definition to_u8 (s : bits) : res N :=
  do _ <- assert ((1 <=? length s) && (length s <=? 8));
  ret (of_bits s).

Definition decode_chunk (c : bits) : res N :=
  do v <- to_u8 c; un_bits C v.

Definition nth_sym (s : bits) (i : nat) : res N :=
  do c <- index s 6 i 0; decode_chunk c.

Definition get_sym (s : bits) (i : nat) : res (option N) :=
  if slen s <=? i then ret None else do x <- nth_sym s i; ret (Some x).

(* SeqIter: index from 0 while index < len *)
Fixpoint iter_from (s : bits) (i fuel : nat) : res (list N) :=
  match fuel with
  | O => ret []
  | S f => if slen s <=? i then ret []
           else do x <- nth_sym s i; do r <- iter_from s (i + 1) f; ret (x :: r)
  end.
Definition iter (s : bits) : res (list N) := iter_from s 0 (slen s).

(* RevIter: index from len down to 1 *)
Fixpoint rev_iter_from (s : bits) (i : nat) : res (list N) :=
  match i with
  | O => ret []
  | S j => do x <- nth_sym s j; do r <- rev_iter_from s j; ret (x :: r)
  end.
Definition rev_iter (s : bits) : res (list N) := rev_iter_from s (slen s).

Definition char_of (x : N) : res N := to_char C x.

(* Display / String::from : iter().map(to_char).collect() *)
Definition display (s : bits) : res (list N) :=
  do xs <- iter s; mapM char_of xs.

(* ---------------- windows / chunks : the SeqChunks state machine ---------------- *)
Record chunker := { ck_width : nat; ck_skip : nat; ck_index : nat }.

Definition chunk_next (s : bits) (k : chunker) : res (option (bits * chunker)) :=
  if slen s <? ck_index k + ck_width k then ret None
  else
    let i := ck_index k in
    let k' := {| ck_width := ck_width k; ck_skip := ck_skip k; ck_index := i + ck_skip k |} in
    if slen s <? i + ck_width k then ret None
    else do c <- index s 0 i (i + ck_width k); ret (Some (c, k')).


Fixpoint chunk_collect (s : bits) (k : chunker) (fuel : nat) : res (collected bits) :=
  match fuel with
  | O => ret OutOfFuel
  | S f => do n <- chunk_next s k;
           match n with
           | None => ret (Done [])
           | Some (c, k') =>
               do r <- chunk_collect s k' f;
               match r with Done l => ret (Done (c :: l)) | OutOfFuel => ret OutOfFuel end
           end
  end.

Definition windows (s : bits) (w : nat) : res (collected bits) :=
  chunk_collect s {| ck_width := w; ck_skip := 1; ck_index := 0 |} (slen s + 2).
Definition chunks_of (s : bits) (w : nat) : res (collected bits) :=
  chunk_collect s {| ck_width := w; ck_skip := w; ck_index := 0 |} (slen s + 2).

(* chain: first's symbols then second's *)
Definition chain (a b : bits) : res (list N) :=
  do x <- iter a; do y <- iter b; ret (x ++ y).

(* ---------------- construction (seq.rs) ---------------- *)
(* push: byte.view_bits::<Lsb0>()[..BITS] appended *)
Definition push (s : bits) (x : N) : bits := s ++ to_bits B x.
Definition extend (s : bits) (xs : list N) : bits := fold_left push xs s.
Definition collect_syms (xs : list N) : bits := extend [] xs.

(* TryFrom<Vec<u8>> : map try_from_ascii, collect::<Result<Seq,_>> short-circuits on first Err *)
Fixpoint parse (l : list N) : bits + N :=
  match l with
  | [] => inl []
  | b :: t => match try_ascii C b with
              | None => inr b
              | Some x => match parse t with
                          | inl r => inl (to_bits B x ++ r)
                          | inr e => inr e
                          end
              end
  end.

(* position / rposition of an acceptable byte *)
Fixpoint position (l : list N) : option nat :=
  match l with
  | [] => None
  | b :: t => match try_ascii C b with
              | Some _ => Some 0
              | None => option_map S (position t)
              end
  end.
Definition rposition (l : list N) : option nat :=
  option_map (fun p => length l - 1 - p) (position (rev l)).

Definition trim (v : list N) : bits + N :=
  let start := match position v with Some p => p | None => length v end in
  let rest := skipn start v in
  let stop := match rposition rest with Some p => start + p + 1 | None => start end in
  parse (firstn (stop - start) rest).

(* ---------------- edits ---------------- *)
Definition append (s o : bits) : bits := s ++ o.
Definition prepend (s o : bits) : bits := o ++ s.
Definition insert (s : bits) (i : nat) (o : bits) : res bits :=
  do _ <- assert (i <=? slen s);
  ret (firstn (i * B) s ++ o ++ skipn (i * B) s).
Definition truncate (s : bits) (n : nat) : bits := firstn (n * B) s.

(* bit_range + drain.  form: 0 a..b | 1 a..=b | 2 ..b | 3 ..=b | 4 a.. | 5 .. | 6 (Excluded a, Included b) *)
Definition range_bounds (s : bits) (form : N) (a b : nat) : nat * nat :=
  match form with
  | 0%N => (a, b) | 1%N => (a, b + 1) | 2%N => (0, b) | 3%N => (0, b + 1)
  | 4%N => (a, slen s) | 5%N => (0, slen s) | _ => (a + 1, b + 1)
  end.
Definition remove (s : bits) (form : N) (a b : nat) : res bits :=
  let (st, en) := range_bounds s form a b in
  do _ <- assert (negb dbg || ((st <=? en) && (en <=? slen s)));
  (* BitVec::drain normalises a reversed range by swapping it, then asserts end <= len *)
  let (lo, hi) := if en * B <? st * B then (en * B, st * B) else (st * B, en * B) in
  do _ <- assert (hi <=? length s);
  ret (firstn lo s ++ skipn hi s).

(* ---------------- reverse / complement / mask ---------------- *)
Definition seq_rev (s : bits) : bits := rev_syms_bits B s.

(* for base in chunks_exact_mut(BITS): bc = unsafe_from_bits(load_le::<u8>); f; store(bc.to_bits()).
   chunks_exact ignores an incomplete tail, which stays as it is. *)
Definition map_syms (f : N -> res N) (s : bits) : res bits :=
  let n := slen s in
  do cs <- mapM (fun c => do x <- decode_chunk c; do y <- f x; ret (to_bits B y))
                (chunks B (firstn (n * B) s));
  ret (concat cs ++ skipn (n * B) s).

Definition seq_comp (s : bits) : res bits := map_syms (comp_sym C) s.
Definition seq_revcomp (s : bits) : res bits := do c <- seq_comp s; ret (seq_rev c).
Definition seq_mask (s : bits) : res bits := map_syms (mask_sym C) s.
Definition seq_unmask (s : bits) : res bits := map_syms (unmask_sym C) s.

(* ---------------- bitwise ops (bitvec BitAndAssign / BitOrAssign: zip, length of lhs kept) *)
(* the right operand is padded with false (sp_bitop_assign): AND clears what lies beyond it *)
Fixpoint and_assign (l r : bits) : bits :=
  match l, r with
  | x :: l', y :: r' => (x && y) :: and_assign l' r'
  | _, [] => repeat false (length l)
  | [], _ => []
  end.
Fixpoint or_assign (l r : bits) : bits :=
  match l, r with
  | x :: l', y :: r' => (x || y) :: or_assign l' r'
  | _, [] => l
  | [], _ => []
  end.

Fixpoint bits_eqb (a b : bits) : bool :=
  match a, b with
  | [], [] => true
  | x :: a', y :: b' => Bool.eqb x y && bits_eqb a' b'
  | _, _ => false
  end.

(* contains: lengths equal and (self & rhs) == rhs *)
Definition contains (p q : bits) : bool :=
  (slen q =? slen p) && bits_eqb (and_assign p q) q.

(* ---------------- equality, hashing, ordering ---------------- *)
Definition seq_eqb (a b : bits) : bool := bits_eqb a b.

(* PartialEq<&str> for SeqSlice: byte length = len, then per-position try_from_ascii comparison *)
Fixpoint eq_str_syms (xs : list N) (bs : list N) : bool :=
  match xs, bs with
  | x :: xs', b :: bs' =>
      match try_ascii C b with
      | Some y => if N.eqb x y then eq_str_syms xs' bs' else false
      | None => false
      end
  | _, _ => true    (* zip stops at the shorter *)
  end.
Definition eq_str (s : bits) (bs : list N) : res bool :=
  if negb (length bs =? slen s) then ret false
  else do xs <- iter s; ret (eq_str_syms xs bs).

Definition le_bytes8 (n : N) : list N :=
  map (fun i => (n / 2 ^ (8 * N.of_nat i)) mod 256)%N (seq 0 8).

(* Hash for SeqSlice: one write_u8 per bit, then len as usize (8 LE bytes on this target) *)
Definition hash_feed (s : bits) : list N :=
  map (fun b : bool => if b then 1%N else 0%N) s ++ le_bytes8 (N.of_nat (slen s)).

(* Ord for Seq (after fix F7): lexicographic comparison of the reversed bit lists *)
Fixpoint lex_bits (a b : bits) : comparison :=
  match a, b with
  | [], [] => Eq
  | [], _ => Lt
  | _, [] => Gt
  | x :: a', y :: b' =>
      match x, y with
      | false, true => Lt
      | true, false => Gt
      | _, _ => lex_bits a' b'
      end
  end.
Definition seq_cmp (a b : bits) : comparison := lex_bits (rev a) (rev b).

(* ---------------- integer conversions ---------------- *)
(* TryFrom<&SeqSlice> for usize *)
Inductive usize_res := UOk (v : N) | UTooLong (len expected : nat).
Definition to_usize (s : bits) : res usize_res :=
  if length s <=? 64
  then do _ <- assert (1 <=? length s); ret (UOk (of_bits s))
  else ret (UTooLong (slen s) (64 / B)).

(* From<Seq> for usize: debug_assert len <= 64 ; load_le panics on 0 or > 64 bits *)
Definition into_usize (s : bits) : res N :=
  do _ <- assert ((1 <=? length s) && (length s <=? 64));
  ret (of_bits s).

(* from_raw (after fix F2): Bv::from_slice(words), None if len*BITS > bits, else truncate *)
Definition words_bits (ws : list N) : bits := concat (map (to_bits 64) ws).
Definition from_raw (n : nat) (ws : list N) : option bits :=
  let bv := words_bits ws in
  if length bv <? n * B then None else Some (firstn (n * B) bv).

(* into_raw (after fix F3: every owned sequence starts at bit 0): the live region of the image *)
Definition into_raw_live (s : bits) : bits := s.

(* ---------------- translation (translation/standard.rs) ---------------- *)
(* Standard::to_amino: assert len == 3 ; Amino::unsafe_from_bits(u8::from(codon)) *)
Definition to_amino (amino : codec) (c : bits) : res N :=
  do _ <- assert (slen c =? 3); do v <- to_u8 c; un_bits amino v.

(* ---------------- conversions between codecs: iter().map(Into::into).collect() ---------------- *)
Definition convert (f : N -> res N) (B' : nat) (s : bits) : res bits :=
  do xs <- iter s; do ys <- mapM f xs; ret (concat (map (to_bits B') ys)).

End Model.
