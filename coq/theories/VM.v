(* VM.v — the "sequence VM": the script interpreter of the correspondence check, in Gallina.
   harness/src/vm.rs interprets the same scripts against the real API; the two outputs are
   compared inside coqc by vm_compute.  All numeric arguments are N (printed by the generator
   under N_scope); a register holds the live bits of an owned sequence. *)
From Coq Require Import List Arith NArith Lia Bool.
From BioSeq Require Import Bits Codec Tables SeqModel KmerModel.
Import ListNotations.
Set Implicit Arguments.

Inductive sd := SD (reg : N) (ranges : list (N * N * N)).

Inductive op :=
  (* constructors *)
  | OParse (entry : N) (bytes : list N)
  | OTrim (bytes : list N)
  | OCollect (m : N) (codes : list N)
  | OClone (r : N)
  | OToOwned (s : sd)
  | OFromSlice (s : sd)
  | OToRev (s : sd)
  | OToComp (s : sd)
  | OToRevComp (s : sd)
  | OToMask (r : N)
  | OToUnmask (r : N)
  | OAnd (a b : sd)
  | OOr (a b : sd)
  | OBitAnd (a b : N)
  | OBitOr (a b : N)
  | OFromRaw (n : N) (ws : list N)
  | OSerde (f r : N)
  (* mutators *)
  | OPush (r c : N)
  | OExtend (r : N) (cs : list N)
  | OAppend (r : N) (s : sd)
  | OPrepend (r : N) (s : sd)
  | OInsert (r i : N) (s : sd)
  | ORemove (r form a b : N)
  | OTruncate (r n : N)
  | OClear (r : N)
  | ORev (r : N)
  | OComp (r : N)
  | ORevComp (r : N)
  | OMask (r : N)
  | OUnmask (r : N)
  (* observers *)
  | OLen (s : sd)
  | ODisplay (s : sd)
  | OCodes (s : sd)
  | ORevIter (s : sd)
  | ONth (s : sd) (i : N)
  | OGet (s : sd) (i : N)
  | OWindows (s : sd) (w : N)
  | OChunks (s : sd) (w : N)
  | OWinVec (s : sd) (w : N)
  | OChain (a b : sd)
  | OEq (m : N) (a b : sd)
  | OEqStr (a : sd) (bytes : list N)
  | OCmp (a b : N)
  | OToUsize (s : sd)
  | OToU8 (s : sd)
  | OIntoUsize (r : N)
  | OIntoRaw (r : N)
  | OHashEq (a b : sd)
  | OMapGet (r : N) (s : sd)
  | OContains (m : N) (a b : sd)
  | OConv (t : N) (s : sd)
  | OAll
  | OFromBv (h : N) (cs : list N)
  | OArr (cs : list N) (s : sd)
  (* translation *)
  | OXlate (m : N) (s : sd)
  | OXlateI (s : sd)
  | OXCodon (a : N)
  | OCtNew (flat : list N)
  | OCtQ (s : sd)
  | OCtR (a : N)
  (* k-mers: ops that define the current k-mer carry K and W (0 usize, 1 u64, 2 u128) *)
  | KFrom (k w : N) (s : sd)
  | KUnsafe (k w : N) (s : sd)
  | KStr (k w : N) (bytes : list N)
  | KInt (k w lo hi : N)
  | KFromSeq (k w r : N)
  | KMers (k w : N) (s : sd)
  | KMin (k w : N) (s : sd)
  | KObs
  | KRotl (n : N)
  | KRotr (n : N)
  | KPushl (c : N)
  | KPushr (c : N)
  | KEq (m : N) (s : sd)
  | KHashEq (s : sd)
  | KCmp (lo hi : N)
  | KSerde (f : N)
  | KDeref
  | KAsRef
  | KToSeq
  | KRev
  | KToRev
  | KEqSeq (r : N)
  | KEqStr (bytes : list N)
  | KUsize
  | KComp
  | KToComp
  | KRevComp
  | KToRevComp
  | KView (n : N).

Record state := {
  regs : list bits;
  kk : N; kw : N; kv : N;
  ct : list (bits * N);    (* custom codon table: association list, first match wins *)
  out : list (list N)      (* observations, most recent first *)
}.

Definition init : state := {| regs := []; kk := 1; kw := 0; kv := 0; ct := []; out := [] |}.

Section Run.
Variable C : codec.
Variable dbg : bool.
(* the two conversion targets of C19, only meaningful when C is the 2-bit DNA codec *)
Variable conv_iupac : N -> res N.
Variable conv_text : N -> res N.
Variable iupac_codec : codec.
Variable text_codec : codec.
Variable amino_codec : codec.
Variable std_try : list tres.          (* STANDARD.try_to_amino on the 16^3 raw IUPAC codons *)
Variable std_codon : list (N * cres).  (* STANDARD.try_to_codon per amino code *)

Let B := c_bits C.
Definition nn := N.to_nat.

Definition get_reg (st : state) (r : N) : res bits := nth_error (regs st) (nn r).

Fixpoint set_nth (l : list bits) (i : nat) (v : bits) : res (list bits) :=
  match l, i with
  | [], _ => None
  | _ :: t, O => ret (v :: t)
  | x :: t, S j => do r <- set_nth t j v; ret (x :: r)
  end.

Fixpoint apply_ranges (s : bits) (rs : list (N * N * N)) : res bits :=
  match rs with
  | [] => ret s
  | (f, a, b) :: t => do s' <- index C s f (nn a) (nn b); apply_ranges s' t
  end.

Definition slice_of (st : state) (d : sd) : res bits :=
  match d with SD r rs => do s <- get_reg st r; apply_ranges s rs end.
Definition sd_reg (d : sd) : N := match d with SD r _ => r end.

Definition emit (st : state) (o : list N) : state :=
  {| regs := regs st; kk := kk st; kw := kw st; kv := kv st; ct := ct st; out := o :: out st |}.
Definition push_reg (st : state) (s : bits) : state :=
  {| regs := regs st ++ [s]; kk := kk st; kw := kw st; kv := kv st; ct := ct st; out := out st |}.
Definition set_reg (st : state) (r : N) (s : bits) : res state :=
  do l <- set_nth (regs st) (nn r) s;
  ret {| regs := l; kk := kk st; kw := kw st; kv := kv st; ct := ct st; out := out st |}.
Definition set_k (st : state) (k w x : N) : state :=
  {| regs := regs st; kk := k; kw := w; kv := x; ct := ct st; out := out st |}.
Definition set_ct (st : state) (t : list (bits * N)) : state :=
  {| regs := regs st; kk := kk st; kw := kw st; kv := kv st; ct := t; out := out st |}.

(* flat entry list [len; c1..clen; amino; ...] -> entries; HashMap::from keeps the LAST value of a
   duplicated key, so the association list is built in reverse (first match = last inserted) *)
Fixpoint decode_entries (fuel : nat) (l : list N) (acc : list (bits * N)) : list (bits * N) :=
  match fuel with
  | O => acc
  | S f => match l with
           | [] => acc
           | n :: t =>
               let cs := firstn (nn n) t in
               match skipn (nn n) t with
               | a :: t' => decode_entries f t' ((encode B cs, a) :: acc)
               | [] => acc
               end
           end
  end.

Fixpoint ct_lookup (t : list (bits * N)) (q : bits) : option N :=
  match t with
  | [] => None
  | (k, a) :: r => if bits_eqb k q then Some a else ct_lookup r q
  end.

(* keys of the map (each once: the first occurrence in the reversed list is the live one) *)
Fixpoint ct_dedupe (t : list (bits * N)) (seen : list bits) : list (bits * N) :=
  match t with
  | [] => []
  | (k, a) :: r => if existsb (bits_eqb k) seen then ct_dedupe r seen
                   else (k, a) :: ct_dedupe r (k :: seen)
  end.

Definition ct_preimages (t : list (bits * N)) (a : N) : list bits :=
  map fst (filter (fun e => N.eqb (snd e) a) (ct_dedupe t [])).

Definition std_index (s : bits) : nat :=
  match codes B s with
  | [c0; c1; c2] => nn (c0 + 16 * c1 + 256 * c2)
  | _ => 0
  end.

Definition obs_tres (r : tres) : list N :=
  match r with
  | TOk a => [0; a] | TAmbiguous => [1] | TInvalid => [2] | TOther => [3] | TPanic => [4]
  end%N.

Definition b2n (b : bool) : N := if b then 1%N else 0%N.
Definition nat2n := N.of_nat.
Definition cmp2n (c : comparison) : N := match c with Lt => 0 | Eq => 1 | Gt => 2 end%N.

Definition lencodes (s : bits) : res (list N) :=
  do xs <- iter C s; ret (nat2n (slen C s) :: xs).

Fixpoint flat_lencodes (l : list bits) : res (list N) :=
  match l with
  | [] => ret []
  | s :: t => do a <- lencodes s; do r <- flat_lencodes t; ret (a ++ r)
  end.

Definition obs_collected (c : collected bits) : res (list N) :=
  match c with
  | OutOfFuel => None
  | Done l => do f <- flat_lencodes l; ret (nat2n (length l) :: f)
  end.

Definition list_eqb (a b : list N) : bool := if list_eq_dec N.eq_dec a b then true else false.

Definition wbits (w : N) : nat := match w with 2%N => 128 | _ => 64 end.

Definition kerr_obs (e : kerr) : list N :=
  match e with
  | KMismatch _ _ => [2]
  | KBadBase _ => [1]   (* the payload of a k-mer text error is not specified *)
  end%N.

Definition lo64 (x : N) : N := (x mod 2 ^ 64)%N.
Definition hi64 (x : N) : N := (x / 2 ^ 64)%N.

Definition step (st : state) (o : op) : res state :=
  match o with
  | OParse _ bytes =>
      match parse C bytes with
      | inl s => ret (push_reg (emit st [0%N]) s)
      | inr b => ret (push_reg (emit st [1%N; b]) [])
      end
  | OTrim bytes =>
      match trim C bytes with
      | inl s => ret (push_reg (emit st [0%N]) s)
      | inr b => ret (push_reg (emit st [1%N; b]) [])
      end
  | OCollect _ cs => ret (push_reg st (collect_syms C cs))
  | OClone r => do s <- get_reg st r; ret (push_reg st s)
  | OToOwned d => do s <- slice_of st d; ret (push_reg st s)
  | OFromSlice d => do s <- slice_of st d; do xs <- iter C s; ret (push_reg st (collect_syms C xs))
  | OToRev d => do s <- slice_of st d; ret (push_reg st (seq_rev C s))
  | OToComp d => do s <- slice_of st d; do c <- seq_comp C s; ret (push_reg st c)
  | OToRevComp d => do s <- slice_of st d; do c <- seq_revcomp C s; ret (push_reg st c)
  | OToMask r => do s <- get_reg st r; do c <- seq_mask C s; ret (push_reg st c)
  | OToUnmask r => do s <- get_reg st r; do c <- seq_unmask C s; ret (push_reg st c)
  | OAnd a b => do x <- slice_of st a; do y <- slice_of st b; ret (push_reg st (and_assign x y))
  | OOr a b => do x <- slice_of st a; do y <- slice_of st b; ret (push_reg st (or_assign x y))
  | OBitAnd a b => do x <- get_reg st a; do y <- get_reg st b; ret (push_reg st (and_assign x y))
  | OBitOr a b => do x <- get_reg st a; do y <- get_reg st b; ret (push_reg st (or_assign x y))
  | OFromRaw n ws =>
      match from_raw C (nn n) ws with
      | Some s => ret (push_reg (emit st [1%N]) s)
      | None => ret (push_reg (emit st [0%N]) [])
      end
  | OSerde _ r => do s <- get_reg st r; ret (push_reg (emit st [0%N]) s)
  | OPush r c => do s <- get_reg st r; set_reg st r (push C s c)
  | OExtend r cs => do s <- get_reg st r; set_reg st r (extend C s cs)
  | OAppend r d => do s <- get_reg st r; do a <- slice_of st d; set_reg st r (append s a)
  | OPrepend r d => do s <- get_reg st r; do a <- slice_of st d; set_reg st r (prepend s a)
  | OInsert r i d =>
      do s <- get_reg st r; do a <- slice_of st d;
      do s' <- insert C s (nn i) a; set_reg st r s'
  | ORemove r f a b => do s <- get_reg st r; do s' <- remove C dbg s f (nn a) (nn b); set_reg st r s'
  | OTruncate r n => do s <- get_reg st r; set_reg st r (truncate C s (nn n))
  | OClear r => do _ <- get_reg st r; set_reg st r []
  | ORev r => do s <- get_reg st r; set_reg st r (seq_rev C s)
  | OComp r => do s <- get_reg st r; do c <- seq_comp C s; set_reg st r c
  | ORevComp r => do s <- get_reg st r; do c <- seq_revcomp C s; set_reg st r c
  | OMask r => do s <- get_reg st r; do c <- seq_mask C s; set_reg st r c
  | OUnmask r => do s <- get_reg st r; do c <- seq_unmask C s; set_reg st r c
  | OLen d => do s <- slice_of st d;
      ret (emit st [nat2n (slen C s); b2n (slen C s =? 0)])
  | ODisplay d => do s <- slice_of st d; do t <- display C s; ret (emit st t)
  | OCodes d => do s <- slice_of st d; do t <- lencodes s; ret (emit st t)
  | ORevIter d => do s <- slice_of st d; do t <- rev_iter C s; ret (emit st t)
  | ONth d i => do s <- slice_of st d; do x <- nth_sym C s (nn i); ret (emit st [x])
  | OGet d i => do s <- slice_of st d; do x <- get_sym C s (nn i);
      ret (emit st (match x with Some c => [1%N; c] | None => [0%N] end))
  | OWindows d w => do s <- slice_of st d; do c <- windows C s (nn w);
      do t <- obs_collected c; ret (emit st t)
  | OChunks d w => do s <- slice_of st d; do c <- chunks_of C s (nn w);
      do t <- obs_collected c; ret (emit st t)
  | OWinVec d w => do s <- slice_of st d; do c <- windows C s (nn w);
      do t <- obs_collected c; ret (emit st t)
  | OChain a b => do x <- slice_of st a; do y <- slice_of st b; do t <- chain C x y; ret (emit st t)
  | OEq m a b =>
      do sa <- slice_of st a; do sb <- slice_of st b;
      do ra <- get_reg st (sd_reg a); do rb <- get_reg st (sd_reg b);
      let r := match m with
               | 2%N | 7%N | 8%N => seq_eqb ra rb
               | 3%N | 4%N => seq_eqb ra sb
               | 5%N | 6%N => seq_eqb sa rb
               | _ => seq_eqb sa sb
               end in
      ret (emit st [b2n r])
  | OEqStr a bytes => do s <- slice_of st a; do r <- eq_str C s bytes; ret (emit st [b2n r])
  | OCmp a b => do x <- get_reg st a; do y <- get_reg st b; ret (emit st [cmp2n (seq_cmp x y)])
  | OToUsize d => do s <- slice_of st d; do r <- to_usize C s;
      ret (emit st (match r with
                    | UOk v => [0%N; v]
                    | UTooLong _ _ => [3%N]
                    end))
  | OToU8 d => do s <- slice_of st d; do v <- to_u8 s; ret (emit st [v])
  | OIntoUsize r => do s <- get_reg st r; do v <- into_usize s; ret (emit st [v])
  | OIntoRaw r => do s <- get_reg st r;
      ret (emit st (nat2n (slen C s) :: codes B (firstn (slen C s * B) (into_raw_live s))))
  | OHashEq a b => do x <- slice_of st a; do y <- slice_of st b;
      ret (emit st [b2n (list_eqb (hash_feed C x) (hash_feed C y))])
  | OMapGet r d => do k <- get_reg st r; do q <- slice_of st d; ret (emit st [b2n (seq_eqb k q)])
  | OContains m a b =>
      do p <- (match m with 1%N => get_reg st (sd_reg a) | _ => slice_of st a end);
      do q <- slice_of st b;
      ret (emit st [b2n (contains C p q)])
  | OConv t d =>
      do s <- slice_of st d;
      let (f, C') := match t with 0%N => (conv_iupac, iupac_codec) | _ => (conv_text, text_codec) end in
      do c <- convert C f (c_bits C') s;
      do xs <- iter C' c; do ds <- display C' c;
      ret (emit st (nat2n (slen C' c) :: xs ++ ds))
  | OAll => do f <- flat_lencodes (regs st); ret (emit st (nat2n (length (regs st)) :: f))
  | OFromBv _ cs => ret (push_reg st (encode B cs))
  | OArr cs d =>
      (* a SeqArray<A, N, W> holding cs, seen through Deref / AsRef / From<&_> / From<_> for Seq,
         its hash and equality, Kmer == SeqArray (one-word arrays) and SeqArray<Iupac>::contains *)
      do q <- slice_of st d;
      let a := encode B cs in
      do lc <- lencodes a;
      let n := length cs in
      let sep := [777%N] in
      let base := lc ++ sep ++ lc ++ sep ++ lc ++ sep ++ lc ++ sep ++ [1%N; 1%N; b2n (seq_eqb a q)] in
      let kpart := if (n * B <=? 64) then
                     sep ++ [1%N; 1%N] ++
                     (if slen C q =? n then [b2n (seq_eqb q a); b2n (seq_eqb q a)] else [2%N; 2%N])
                   else [] in
      let cpart := if c_has_mask C then [] else
                   if B =? 4 then sep ++ [b2n (contains C a q)] else [] in
      (* a DNA array converts to IUPAC and to text (From<&SeqArray<A>> / From<SeqArray<A>> for Seq<B>) *)
      do vpart <- (if B =? 2
                   then match mapM conv_iupac cs, mapM conv_text cs with
                        | Some x, Some y => ret (sep ++ (nat2n (length x) :: x) ++ sep ++ (nat2n (length y) :: y))
                        | _, _ => None
                        end
                   else ret []);
      ret (emit st (base ++ kpart ++ cpart ++ vpart))
  | OXlate m d =>
      do s <- slice_of st d;
      let to_amino := SeqModel.to_amino C amino_codec in
      match m with
      | 2%N => do a <- to_amino s; ret (emit st [a])
      | _ =>
          do c <- (match m with 0%N => windows C s 3 | _ => chunks_of C s 3 end);
          match c with
          | OutOfFuel => None
          | Done l => do xs <- mapM to_amino l; ret (emit st xs)
          end
      end
  | OXlateI d =>
      do s <- slice_of st d;
      if negb (slen C s =? 3) then ret (emit st [2%N])
      else ret (emit st (obs_tres (nth (std_index s) std_try TPanic)))
  | OXCodon a =>
      match find (fun p => N.eqb (fst p) a) std_codon with
      | Some (_, COk c) => ret (emit st (0%N :: c))
      | Some (_, CAmbiguous) => ret (emit st [1%N])
      | Some (_, CInvalid) => ret (emit st [3%N])
      | _ => ret (emit st [4%N])
      end
  | OCtNew flat => ret (set_ct st (decode_entries (length flat) flat []))
  | OCtQ d =>
      do q <- slice_of st d;
      match ct_lookup (ct st) q with
      | Some a => ret (emit st [0%N; a])
      | None => ret (emit st [2%N])
      end
  | OCtR a =>
      match ct_preimages (ct st) a with
      | [] => ret (emit st [3%N])
      | [k] => ret (emit st (0%N :: nat2n (slen C k) :: codes B k))
      | _ => ret (emit st [1%N])
      end
  (* ---- k-mers ---- *)
  | KFrom k w d => do s <- slice_of st d;
      do r <- try_from C dbg (nn k) (wbits w) s;
      match r with
      | inl x => ret (emit (set_k st k w x) [0%N])
      | inr e => ret (emit st (kerr_obs e))
      end
  | KUnsafe k w d => do s <- slice_of st d;
      do x <- unsafe_from C dbg (nn k) (wbits w) s; ret (set_k st k w x)
  | KStr k w bytes =>
      do r <- from_str C dbg (nn k) (wbits w) bytes;
      match r with
      | inl x => ret (emit (set_k st k w x) [0%N])
      | inr e => ret (emit st (kerr_obs e))
      end
  | KInt k w lo hi => ret (set_k st k w ((lo + 2 ^ 64 * hi) mod 2 ^ N.of_nat (wbits w))%N)
  | KFromSeq k w r => do s <- get_reg st r;
      do x <- try_from C dbg (nn k) (wbits w) s;
      match x with
      | inl x => ret (emit (set_k st k w x) [0%N])
      | inr e => ret (emit st (kerr_obs e))
      end
  | KMers k w d => do s <- slice_of st d;
      do c <- kmers C dbg (nn k) (wbits w) s;
      match c with
      | OutOfFuel => None
      | Done l => ret (emit st (nat2n (length l) :: l))
      end
  | KMin k w d => do s <- slice_of st d;
      do c <- kmers C dbg (nn k) (wbits w) s;
      match c with
      | OutOfFuel => None
      | Done [] => ret (emit st [0%N])
      | Done (x :: l) => ret (emit st [1%N; fold_left N.min l x; fold_left N.max l x])
      end
  | KObs =>
      do d <- kdisplay C (nn (kk st)) (wbits (kw st)) (kv st);
      ret (emit st (lo64 (kv st) :: hi64 (kv st) :: kk st :: d))
  | KRotl n => do x <- rotated_left C (nn (kk st)) (wbits (kw st)) (kv st) n;
      ret (set_k st (kk st) (kw st) x)
  | KRotr n => do x <- rotated_right C (nn (kk st)) (wbits (kw st)) (kv st) n;
      ret (set_k st (kk st) (kw st) x)
  | KPushl c => do x <- pushl C (nn (kk st)) (wbits (kw st)) (kv st) c;
      ret (set_k st (kk st) (kw st) x)
  | KPushr c => do x <- pushr C (nn (kk st)) (wbits (kw st)) (kv st) c;
      ret (set_k st (kk st) (kw st) x)
  | KEq _ d => do s <- slice_of st d;
      do r <- keq_slice C dbg (nn (kk st)) (wbits (kw st)) (kv st) s; ret (emit st [b2n r])
  | KHashEq d => do s <- slice_of st d;
      do f <- khash_feed C (nn (kk st)) (wbits (kw st)) (kv st);
      ret (emit st [b2n (list_eqb f (hash_feed C s))])
  | KCmp lo hi =>
      let y := ((lo + 2 ^ 64 * hi) mod 2 ^ N.of_nat (wbits (kw st)))%N in
      let c := cmp2n (N.compare (kv st) y) in
      ret (emit st [c; c; b2n (N.eqb (kv st) y)])
  | KSerde _ => ret (emit st [0%N])
  | KDeref | KAsRef =>
      do l <- kderef C (nn (kk st)) (wbits (kw st)) (kv st);
      do t <- lencodes l; ret (emit st t)
  | KToSeq => do s <- kto_seq C (nn (kk st)) (wbits (kw st)) (kv st); ret (push_reg st s)
  | KRev | KToRev => do x <- krev C (nn (kk st)) (wbits (kw st)) (kv st);
      ret (set_k st (kk st) (kw st) x)
  | KEqSeq r => do s <- get_reg st r;
      do b <- keq_slice C dbg (nn (kk st)) (wbits (kw st)) (kv st) s; ret (emit st [b2n b])
  | KEqStr bytes => do b <- keq_str C (nn (kk st)) (wbits (kw st)) (kv st) bytes;
      ret (emit st [b2n b])
  | KUsize => ret (emit st [kv st])
  | KComp | KToComp =>
      ret (set_k st (kk st) (kw st) (kcomplement C (nn (kk st)) (wbits (kw st)) (kv st)))
  | KRevComp | KToRevComp =>
      do x <- krevcomp C (nn (kk st)) (wbits (kw st)) (kv st);
      ret (set_k st (kk st) (kw st) x)
  | KView n =>
      (* slice methods with the k-mer itself as receiver (Deref): len, iter, get(i) for i < n *)
      do l <- kderef C (nn (kk st)) (wbits (kw st)) (kv st);
      do t <- lencodes l;
      do gs <- mapM (get_sym C l) (seq 0 (nn n));
      ret (emit st (t ++ [777%N] ++
                    concat (map (fun g => match g with Some c => [1%N; c] | None => [0%N] end) gs)))
  end.

(* a panic ends the script; the flag records it *)
Fixpoint run_ops (st : state) (ops : list op) : list (list N) * bool :=
  match ops with
  | [] => (rev (out st), false)
  | o :: t => match step st o with
              | Some st' => run_ops st' t
              | None => (rev (out st), true)
              end
  end.

Definition run (ops : list op) : list (list N) * bool := run_ops init ops.

Definition obs_eqb (a b : list (list N) * bool) : bool :=
  Bool.eqb (snd a) (snd b) &&
  (if list_eq_dec (list_eq_dec N.eq_dec) (fst a) (fst b) then true else false).

Fixpoint mismatches (i : N) (cs : list (list op * (list (list N) * bool))) : list N :=
  match cs with
  | [] => []
  | (s, e) :: t =>
      if obs_eqb (run s) e then mismatches (i + 1) t else i :: mismatches (i + 1) t
  end.

End Run.
