(* IupacProofs.v — IUPAC sequences as per-position nucleotide sets under | , & and contains (C12);
   trimming (C19). *)
From Coq Require Import List Arith NArith Lia Bool.
From BioSeq Require Import Bits Codec Spec SeqModel SeqProofs SeqProofs2.
Import ListNotations.

(* ---------------- bitwise operations on bit views are land / lor on the integers ---------------- *)
Lemma div2_land a b : N.div2 (N.land a b) = N.land (N.div2 a) (N.div2 b).
Proof.
  apply N.bits_inj. intros n. rewrite N.land_spec, !N.div2_spec, !N.shiftr_spec', N.land_spec.
  reflexivity.
Qed.
Lemma div2_lor a b : N.div2 (N.lor a b) = N.lor (N.div2 a) (N.div2 b).
Proof.
  apply N.bits_inj. intros n. rewrite N.lor_spec, !N.div2_spec, !N.shiftr_spec', N.lor_spec.
  reflexivity.
Qed.
Lemma odd_land a b : N.odd (N.land a b) = N.odd a && N.odd b.
Proof. rewrite <- !N.bit0_odd. apply N.land_spec. Qed.
Lemma odd_lor a b : N.odd (N.lor a b) = N.odd a || N.odd b.
Proof. rewrite <- !N.bit0_odd. apply N.lor_spec. Qed.

Lemma and_assign_to_bits n x y :
  and_assign (to_bits n x) (to_bits n y) = to_bits n (N.land x y).
Proof.
  revert x y. induction n as [|n IH]; intros x y; cbn [to_bits and_assign]; [reflexivity|].
  rewrite IH, odd_land, div2_land. reflexivity.
Qed.

Lemma or_assign_to_bits n x y :
  or_assign (to_bits n x) (to_bits n y) = to_bits n (N.lor x y).
Proof.
  revert x y. induction n as [|n IH]; intros x y; cbn [to_bits or_assign]; [reflexivity|].
  rewrite IH, odd_lor, div2_lor. reflexivity.
Qed.

Section Iupac.
Variable C : codec.
Hypothesis OK : codec_ok C.
Local Notation B := (c_bits C).

(* `&` and `|` of equal-length sequences: position-wise land / lor of the codes *)
Theorem bitand_positionwise xs ys :
  length xs = length ys ->
  and_assign (encode B xs) (encode B ys) = encode B (map2 N.land xs ys).
Proof. apply (and_spec C OK N.land xs ys). intros x y. apply and_assign_to_bits. Qed.

Theorem bitor_positionwise xs ys :
  length xs = length ys ->
  or_assign (encode B xs) (encode B ys) = encode B (map2 N.lor xs ys).
Proof. apply (or_spec C OK N.lor xs ys). intros x y. apply or_assign_to_bits. Qed.

Lemma map2_length {X} (f : X -> X -> X) a b : length a = length b -> length (map2 f a b) = length a.
Proof.
  revert b. induction a as [|x a IH]; intros [|y b] H; simpl in *; try discriminate; [reflexivity|].
  f_equal. apply IH. lia.
Qed.

Lemma map2_small xs ys :
  length xs = length ys -> Forall (smallc C) ys -> Forall (smallc C) (map2 N.land xs ys).
Proof.
  revert ys. induction xs as [|x xs IH]; intros [|y ys] Hl Hy; simpl in *; try discriminate;
    [constructor|].
  inversion Hy; subst. constructor; [|apply IH; [lia|assumption]].
  unfold smallc, small in *.
  eapply N.le_lt_trans; [|eassumption].
  (* land x y <= y *)
  clear. destruct x as [|p], y as [|q]; cbn; try lia.
  revert q. induction p as [p IHp|p IHp|]; intros [q|q|]; cbn; try lia;
    specialize (IHp q); destruct (Pos.land p q); cbn in *; lia.
Qed.

(* contains: lengths equal and every position of the argument is a subset of the pattern's *)
Theorem contains_spec ps qs :
  Forall (smallc C) ps -> Forall (smallc C) qs ->
  contains C (encode B ps) (encode B qs) =
    (length qs =? length ps) &&
    (if list_eq_dec N.eq_dec (map2 N.land ps qs) qs then true else false).
Proof.
  intros Hp Hq. unfold contains. rewrite !(slen_encode C OK).
  destruct (length qs =? length ps) eqn:E; [|reflexivity]. cbn [andb].
  apply Nat.eqb_eq in E. rewrite bitand_positionwise by lia.
  pose proof (bits_eqb_eq (encode B (map2 N.land ps qs)) (encode B qs)) as H.
  destruct (list_eq_dec N.eq_dec (map2 N.land ps qs) qs) as [Heq|Hne].
  - apply H. now rewrite Heq.
  - destruct (bits_eqb (encode B (map2 N.land ps qs)) (encode B qs)) eqn:Eb; [|reflexivity].
    exfalso. apply Hne. apply (@encode_inj B _ _ (Bpos C OK)); [|exact Hq|apply H; reflexivity].
    apply map2_small; [lia | exact Hq].
Qed.

(* ---------------- C19: trimming ---------------- *)
(* trim parses the span between the first and the last acceptable byte *)
Theorem trim_is_parse_of_span v :
  trim C v =
    let start := match position C v with Some p => p | None => length v end in
    let rest := skipn start v in
    let stop := match rposition C rest with Some p => start + p + 1 | None => start end in
    parse C (firstn (stop - start) rest).
Proof. reflexivity. Qed.

Lemma position_none l : position C l = None -> Forall (fun b => try_ascii C b = None) l.
Proof.
  induction l as [|b l IH]; cbn [position]; intros H; [constructor|].
  destruct (try_ascii C b) eqn:E; [discriminate|].
  constructor; [exact E|]. apply IH. destruct (position C l); [discriminate|reflexivity].
Qed.

Lemma position_some l p :
  position C l = Some p ->
  Forall (fun b => try_ascii C b = None) (firstn p l) /\ exists b s, nth_error l p = Some b /\ try_ascii C b = Some s.
Proof.
  revert p. induction l as [|b l IH]; cbn [position]; intros p H; [discriminate|].
  destruct (try_ascii C b) as [s|] eqn:E.
  - inversion H; subst. split; [constructor|]. exists b, s. split; [reflexivity|exact E].
  - destruct (position C l) as [q|] eqn:P; [|discriminate]. inversion H; subst.
    destruct (IH q eq_refl) as [F [b' [s' [N T]]]]. split.
    + cbn [firstn]. constructor; assumption.
    + exists b', s'. split; assumption.
Qed.

(* an input with no acceptable byte (or an empty one) gives the empty sequence *)
Theorem trim_all_bad v :
  Forall (fun b => try_ascii C b = None) v -> trim C v = inl [].
Proof.
  intros H. unfold trim.
  assert (P : position C v = None).
  { induction H as [|b l Hb _ IH]; cbn [position]; [reflexivity|]. now rewrite Hb, IH. }
  rewrite P. rewrite skipn_all. unfold rposition. cbn [rev position option_map].
  rewrite Nat.sub_diag. reflexivity.
Qed.

(* leading and trailing unacceptable bytes never matter: with an acceptable first and last byte of
   the core, trim (lead ++ core ++ tail) = parse core *)
Lemma position_app_bad lead l :
  Forall (fun b => try_ascii C b = None) lead ->
  position C (lead ++ l) = option_map (fun p => length lead + p) (position C l).
Proof.
  induction 1 as [|b lead Hb _ IH]; cbn [app position length].
  - destruct (position C l); reflexivity.
  - rewrite Hb, IH. destruct (position C l); reflexivity.
Qed.

Theorem trim_strips_ends lead core tail f s l sl :
  Forall (fun b => try_ascii C b = None) lead ->
  Forall (fun b => try_ascii C b = None) tail ->
  core = f :: s -> try_ascii C f <> None ->
  rev core = l :: sl -> try_ascii C l <> None ->
  trim C (lead ++ core ++ tail) = parse C core.
Proof.
  intros Hlead Htail Hcore Hf Hrev Hl. unfold trim.
  rewrite position_app_bad by exact Hlead.
  assert (P0 : position C (core ++ tail) = Some 0).
  { rewrite Hcore. cbn [app position]. destruct (try_ascii C f); [reflexivity|contradiction]. }
  rewrite P0. cbn [option_map]. rewrite Nat.add_0_r.
  rewrite skipn_app, skipn_all, Nat.sub_diag. cbn [app skipn].
  unfold rposition. rewrite rev_app_distr.
  rewrite position_app_bad by (apply Forall_rev; exact Htail).
  rewrite Hrev. cbn [position]. destruct (try_ascii C l) eqn:El; [|contradiction].
  cbn [option_map]. rewrite rev_length, app_length, Nat.add_0_r.
  assert (Lc : length core = S (length sl)).
  { rewrite <- (rev_length core), Hrev. reflexivity. }
  replace (length lead + (length core + length tail - 1 - length tail) + 1 - length lead)
    with (length core) by lia.
  rewrite firstn_app, firstn_all, Nat.sub_diag, firstn_O, app_nil_r. reflexivity.
Qed.

End Iupac.

(* ---------------- codes as nucleotide sets: land = intersection, lor = union, subset ------------- *)
(* pure facts about 4-bit codes, decided by enumerating all 256 pairs in the kernel *)
Definition codes16' : list N := map N.of_nat (seq 0 16).
Definition set_inter (a b : list N) : list N := filter (fun x => inb x b) a.
Definition set_union (a b : list N) : list N := filter (fun x => inb x a || inb x b) [dA; dC; dG; dT].
Definition set_subset (a b : list N) : bool := forallb (fun x => inb x b) a.
Definition nl_eqb (a b : list N) : bool := if list_eq_dec N.eq_dec a b then true else false.

Definition set_facts_ok (x y : N) : bool :=
  nl_eqb (code_set (N.land x y)) (set_inter (code_set x) (code_set y)) &&
  nl_eqb (code_set (N.lor x y)) (set_union (code_set x) (code_set y)) &&
  Bool.eqb (N.eqb (N.land x y) y) (set_subset (code_set y) (code_set x)) &&
  N.eqb (set_code (code_set x)) x.

Lemma set_facts_all : forallb (fun x => forallb (set_facts_ok x) codes16') codes16' = true.
Proof. vm_compute. reflexivity. Qed.

Lemma codes16'_in x : (x < 16)%N -> In x codes16'.
Proof.
  intros H. unfold codes16'. apply in_map_iff. exists (N.to_nat x). split; [apply N2Nat.id|].
  apply in_seq. lia.
Qed.

Theorem iupac_set_algebra x y : (x < 16)%N -> (y < 16)%N ->
  code_set (N.land x y) = set_inter (code_set x) (code_set y) /\
  code_set (N.lor x y) = set_union (code_set x) (code_set y) /\
  (N.land x y = y <-> set_subset (code_set y) (code_set x) = true) /\
  set_code (code_set x) = x.
Proof.
  intros Hx Hy. pose proof set_facts_all as H. rewrite forallb_forall in H.
  specialize (H x (codes16'_in x Hx)). rewrite forallb_forall in H.
  specialize (H y (codes16'_in y Hy)). unfold set_facts_ok in H.
  apply andb_prop in H. destruct H as [H H4]. apply andb_prop in H. destruct H as [H H3].
  apply andb_prop in H. destruct H as [H1 H2].
  unfold nl_eqb in H1, H2.
  destruct (list_eq_dec N.eq_dec (code_set (N.land x y)) (set_inter (code_set x) (code_set y))); [|discriminate].
  destruct (list_eq_dec N.eq_dec (code_set (N.lor x y)) (set_union (code_set x) (code_set y))); [|discriminate].
  repeat split; try assumption.
  - intros E. apply N.eqb_eq in E. rewrite E in H3. symmetry. apply eqb_prop. exact H3.
  - intros E. rewrite E in H3. apply eqb_prop in H3. apply N.eqb_eq. exact H3.
  - apply N.eqb_eq. exact H4.
Qed.
