(* KmerModel.v — executable model of Kmer<A, K, S> (bio-seq/src/kmer.rs, kmer/integral64.rs).
   A k-mer is its storage integer x : N with x < 2^W, W = 64 (usize, u64) or 128 (u128). *)
From Coq Require Import List Arith NArith Lia Bool.
From BioSeq Require Import Bits Codec SeqModel.
Import ListNotations.
Set Implicit Arguments.

Section Kmer.
Variable C : codec.
Variable dbg : bool.
Variable K : nat.
Variable W : nat.

Let B := c_bits C.
Definition kbits : nat := K * B.

(* KmerStorage::to_bitarray : the W storage bits, LSB first *)
Definition to_bitarray (x : N) : bits := to_bits W x.
(* KmerStorage::from_bitslice : load_le, which panics on 0 bits or more than W bits *)
Definition from_bitslice (bs : bits) : res N :=
  do _ <- assert ((1 <=? length bs) && (length bs <=? W));
  ret (of_bits bs).

(* the live window bs[..Self::BITS]; the range index panics if K*BITS > W *)
Definition live (x : N) : res bits := bit_slice (to_bitarray x) 0 kbits.

Definition rotl (n : nat) (l : bits) : bits := skipn n l ++ firstn n l.
Definition rotr (n : nat) (l : bits) : bits := rotl (length l - n) l.

Definition rotated_left (x : N) (n : N) : res N :=
  let byn := (N.to_nat (n mod N.of_nat K)) * B in
  do l <- live x; from_bitslice (rotl byn l).
Definition rotated_right (x : N) (n : N) : res N :=
  let byn := (N.to_nat (n mod N.of_nat K)) * B in
  do l <- live x; from_bitslice (rotr byn l).

(* store a value into a BITS-wide region starting at bit [at] of a bit array *)
Definition store_at (l : bits) (at_ : nat) (v : N) : res bits :=
  do _ <- assert (at_ + B <=? length l);
  ret (firstn at_ l ++ to_bits B v ++ skipn (at_ + B) l).

Definition pushr (x : N) (base : N) : res N :=
  do y <- rotated_left x 1;
  do l <- store_at (to_bitarray y) (kbits - B) base;
  from_bitslice l.
Definition pushl (x : N) (base : N) : res N :=
  do y <- rotated_right x 1;
  do l <- store_at (to_bitarray y) 0 base;
  from_bitslice l.

(* unsafe_from / unsafe_from_seqslice *)
Definition unsafe_from (s : bits) : res N :=
  do _ <- assert (negb dbg || (K =? slen C s));
  from_bitslice s.

Inductive kerr := KMismatch (k len : nat) | KBadBase (b : N).

(* TryFrom<&SeqSlice> *)
Definition try_from (s : bits) : res (N + kerr) :=
  if slen C s =? K
  then do c <- index C s 0 0 K; do x <- unsafe_from c; ret (inl x)
  else ret (inr (KMismatch K (slen C s))).

(* FromStr *)
Definition from_str (bs : list N) : res (N + kerr) :=
  if negb (length bs =? K) then ret (inr (KMismatch K (length bs)))
  else match parse C bs with
       | inr b => ret (inr (KBadBase b))
       | inl s => try_from s
       end.

(* Display: chunks(BITS) of the live window through unsafe_from_bits / to_char *)
Definition kdisplay (x : N) : res (list N) :=
  do l <- live x;
  mapM (fun c => do s <- decode_chunk C c; char_of C s) (chunks B l).

(* Deref for Kmer<A,K,usize> *)
Definition kderef (x : N) : res bits := live x.

(* From<Kmer> for Seq : with_capacity(K); extend(kmer.iter()) *)
Definition kto_seq (x : N) : res bits :=
  do l <- live x; do xs <- iter C l; ret (collect_syms C xs).

(* Hash (after fix F1): the K*BITS live bits, one byte each, then K as usize *)
Definition khash_feed (x : N) : res (list N) :=
  do l <- live x;
  ret (map (fun b : bool => if b then 1%N else 0%N) l ++ le_bytes8 (N.of_nat K)).

(* PartialEq<SeqSlice> / <&SeqSlice> / <Seq> *)
Definition keq_slice (x : N) (s : bits) : res bool :=
  if negb (slen C s =? K) then ret false
  else do y <- unsafe_from s; ret (N.eqb y x).

(* PartialEq<&str> (usize) : &self.to_string() == seq *)
Definition keq_str (x : N) (bs : list N) : res bool :=
  do d <- kdisplay x; ret (if list_eq_dec N.eq_dec d bs then true else false).

(* bitwise xor on W-bit words, by definition through the bit view *)
Fixpoint xor_bits (a b : bits) : bits :=
  match a, b with
  | x :: a', y :: b' => xorb x y :: xor_bits a' b'
  | _, _ => []
  end.
Definition xorW (x y : N) : N := of_bits (xor_bits (to_bits W x) (to_bits W y)).

(* complement(mask) for usize: x ^ MAX if mask >= 64 else x ^ ((1 << mask) - 1) *)
Definition kcomplement (x : N) : N :=
  if W <=? kbits then xorW x (2 ^ N.of_nat W - 1) else xorW x (2 ^ N.of_nat kbits - 1).

(* make_2bit_table : reverse the four 2-bit blocks of a byte *)
Definition rev2bit_byte (i : N) : N :=
  let b0 := N.shiftr (N.land i 192) 6 in
  let b1 := N.shiftr (N.land i 48) 2 in
  let b2 := N.shiftl (N.land i 12) 2 in
  let b3 := N.shiftl (N.land i 3) 6 in
  N.lor (N.lor (N.lor b3 b2) b1) b0.

(* to_le_bytes: n bytes, least significant first *)
Fixpoint le_bytes (n : nat) (x : N) : list N :=
  match n with
  | O => []
  | S k => (x mod 256)%N :: le_bytes k (x / 256)%N
  end.
Fixpoint of_le_bytes (l : list N) : N :=
  match l with [] => 0%N | b :: t => (b + 256 * of_le_bytes t)%N end.

(* rev_blocks_2 for usize: swap_bytes().to_le_bytes(), table per byte, from_le_bytes; then
   Kmer::rev_blocks_2 shifts right by S::BITS - BITS*K *)
Definition rev_blocks_2 (x : N) : N :=
  let bs := rev (le_bytes (W / 8) x) in         (* swap_bytes then to_le_bytes *)
  let v := of_le_bytes (map rev2bit_byte bs) in
  N.shiftr v (N.of_nat (W - kbits)).

(* ReverseMut for Kmer<A,K,usize> (after fix F6) *)
Definition krev (x : N) : res N :=
  if B =? 2 then ret (rev_blocks_2 x)
  else do l <- live x; from_bitslice (rev_syms_bits B l).

Definition krevcomp (x : N) : res N := krev (kcomplement x).

(* KmerIter *)
Fixpoint kmers_from (s : bits) (len i fuel : nat) : res (collected N) :=
  match fuel with
  | O => ret OutOfFuel
  | S f => if len <? i + K then ret (Done [])
           else do c <- index C s 0 i (i + K);
                do x <- unsafe_from c;
                do r <- kmers_from s len (i + 1) f;
                match r with Done l => ret (Done (x :: l)) | OutOfFuel => ret OutOfFuel end
  end.
Definition kmers (s : bits) : res (collected N) :=
  kmers_from s (slen C s) 0 (slen C s + 2).

End Kmer.
