(* OrderProofs.v — ordering is colexicographic = numeric order of the packed integer (C10). *)
From Coq Require Import List Arith NArith Lia Bool.
From BioSeq Require Import Bits Codec Spec SeqModel SeqProofs.
Import ListNotations.
Local Open Scope N_scope.

Lemma compare_digit Bs x y X Y : x < Bs -> y < Bs ->
  (x + Bs * X ?= y + Bs * Y) = match X ?= Y with Eq => x ?= y | c => c end.
Proof.
  intros Hx Hy.
  destruct (N.compare_spec X Y) as [E|L|G].
  - subst. destruct (N.compare_spec x y);
      [apply N.compare_eq_iff | apply N.compare_lt_iff | apply N.compare_gt_iff]; lia.
  - apply N.compare_lt_iff. nia.
  - apply N.compare_gt_iff. nia.
Qed.

(* numeric order of packed integers = colexicographic order of the digit lists *)
Theorem pack_colex Bs xs ys : length xs = length ys ->
  Forall (fun x => x < Bs) xs -> Forall (fun y => y < Bs) ys ->
  (pack Bs xs ?= pack Bs ys) = colex xs ys.
Proof.
  revert ys. induction xs as [|x xt IH]; intros [|y yt] Hl Hx Hy; try discriminate;
    cbn [pack colex].
  - reflexivity.
  - inversion Hx; inversion Hy; subst. rewrite compare_digit by assumption.
    rewrite IH by (auto; simpl in Hl; lia). reflexivity.
Qed.

(* colex is a total order consistent with equality (on equal lengths) *)
Theorem colex_eq_iff xs ys : length xs = length ys -> (colex xs ys = Eq <-> xs = ys).
Proof.
  revert ys. induction xs as [|x xt IH]; intros [|y yt] Hl; try discriminate; cbn [colex].
  - split; reflexivity.
  - simpl in Hl. specialize (IH yt (eq_add_S _ _ Hl)).
    destruct (colex xt yt) eqn:E.
    + rewrite N.compare_eq_iff. split.
      * intros ->. f_equal. apply IH. reflexivity.
      * intros H. inversion H. reflexivity.
    + split; [discriminate|]. intros H. inversion H; subst.
      assert (Lt = Eq) by (apply IH; reflexivity). discriminate.
    + split; [discriminate|]. intros H. inversion H; subst.
      assert (Gt = Eq) by (apply IH; reflexivity). discriminate.
Qed.

Theorem colex_antisym xs ys : length xs = length ys -> colex ys xs = CompOpp (colex xs ys).
Proof.
  revert ys. induction xs as [|x xt IH]; intros [|y yt] Hl; try discriminate; cbn [colex].
  - reflexivity.
  - simpl in Hl. rewrite (IH yt) by lia. destruct (colex xt yt); cbn [CompOpp]; try reflexivity.
    apply N.compare_antisym.
Qed.

(* ---------------- sequences: Ord for Seq (after fix F7) ---------------- *)
Lemma lex_bits_app a b c d : length a = length b ->
  lex_bits (a ++ c) (b ++ d) = match lex_bits a b with Eq => lex_bits c d | r => r end.
Proof.
  revert b. induction a as [|x a IH]; intros [|y b] Hl; try discriminate; cbn [app lex_bits].
  - reflexivity.
  - simpl in Hl. destruct x, y; try reflexivity; apply IH; lia.
Qed.

Lemma lex_rev_compare (a b : bits) : length a = length b ->
  lex_bits (rev a) (rev b) = (of_bits a ?= of_bits b).
Proof.
  revert b. induction a as [|x a IH]; intros [|y b] Hl; try discriminate.
  - reflexivity.
  - simpl in Hl. cbn [rev of_bits]. rewrite lex_bits_app by (rewrite !rev_length; lia).
    rewrite IH by lia.
    rewrite (compare_digit 2) by (destruct x, y; lia).
    destruct (of_bits a ?= of_bits b); try reflexivity.
    destruct x, y; reflexivity.
Qed.

Section Seq.
Variable C : codec.
Hypothesis OK : codec_ok C.
Local Notation B := (c_bits C).

(* equal-length owned sequences order colexicographically, i.e. like the k-mers with the same
   content (whose order is the numeric order of the packed integers) *)
Theorem seq_cmp_colex xs ys :
  length xs = length ys -> Forall (smallc C) xs -> Forall (smallc C) ys ->
  seq_cmp (encode B xs) (encode B ys) = colex xs ys.
Proof.
  intros Hl Hx Hy. unfold seq_cmp.
  rewrite lex_rev_compare by (rewrite !encode_length; lia).
  rewrite !of_bits_encode by assumption.
  apply pack_colex; assumption.
Qed.

Theorem seq_cmp_numeric xs ys :
  length xs = length ys ->
  seq_cmp (encode B xs) (encode B ys) = (of_bits (encode B xs) ?= of_bits (encode B ys)).
Proof. intros Hl. unfold seq_cmp. apply lex_rev_compare. rewrite !encode_length. lia. Qed.

End Seq.
