(* KmerProofs2.v — k-mer complement (xor with a mask), the k-mer iterator (C08), and the 2-bit
   block reversal (byte swap + 256-entry table + shift) against symbol reversal (C09). *)
From Coq Require Import List Arith NArith Lia Bool.
From BioSeq Require Import Bits Codec SeqModel SeqProofs SeqProofs2 IterProofs KmerModel KmerProofs.
Import ListNotations.

(* ---------------- bit-level facts ---------------- *)
Lemma of_bits_repeat_true m : of_bits (repeat true m) = (2 ^ N.of_nat m - 1)%N.
Proof.
  induction m as [|m IH]; [reflexivity|].
  cbn [repeat of_bits]. rewrite IH, Nat2N.inj_succ, N.pow_succ_r'.
  assert (0 < 2 ^ N.of_nat m)%N by (apply N.neq_0_lt_0, N.pow_nonzero; lia). lia.
Qed.

Lemma to_bits_ones m r :
  to_bits (m + r) (2 ^ N.of_nat m - 1) = repeat true m ++ repeat false r.
Proof.
  apply of_bits_inj.
  - now rewrite to_bits_length, app_length, !repeat_length.
  - rewrite of_bits_app_zeros, of_bits_repeat_true, to_bits_small; [reflexivity|].
    assert (2 ^ N.of_nat m <= 2 ^ N.of_nat (m + r))%N by (apply N.pow_le_mono_r; lia).
    assert (0 < 2 ^ N.of_nat m)%N by (apply N.neq_0_lt_0, N.pow_nonzero; lia). lia.
Qed.

Lemma xor_bits_app a b c d : length a = length b ->
  xor_bits (a ++ c) (b ++ d) = xor_bits a b ++ xor_bits c d.
Proof.
  revert b. induction a as [|x a IH]; intros [|y b] Hl; try discriminate; cbn [app xor_bits].
  - reflexivity.
  - simpl in Hl. f_equal. apply IH. lia.
Qed.

Lemma xor_ones a : xor_bits a (repeat true (length a)) = map negb a.
Proof. induction a as [|x a IH]; cbn; [reflexivity|]. rewrite IH. now destruct x. Qed.

Lemma xor_zeros n : xor_bits (repeat false n) (repeat false n) = repeat false n.
Proof. induction n; cbn; [reflexivity|]. now rewrite IHn. Qed.

Section KmerProofs2.
Variable C : codec.
Variable dbg : bool.
Hypothesis OK : codec_ok C.
Variable K : nat.
Variable W : nat.
Local Notation B := (c_bits C).
Hypothesis Kpos : 1 <= K.
Hypothesis Fits : K * B <= W.
Let Bpos := Bpos C OK.

(* complement: xor with the mask of the K*BITS live bits flips exactly those bits *)
Theorem kcomplement_bits xs :
  length xs = K ->
  kcomplement C K W (kval C xs) = of_bits (map negb (encode B xs)).
Proof.
  intros HK. unfold kcomplement, xorW, kbits.
  assert (L : length (encode B xs) = K * B) by (rewrite encode_length; lia).
  pose proof (to_bitarray_kval C OK K W Kpos Fits xs HK) as TB. unfold to_bitarray in TB.
  assert (M : to_bits W (2 ^ N.of_nat (K * B) - 1) = repeat true (K * B) ++ repeat false (W - K * B)).
  { replace W with (K * B + (W - K * B)) at 1 by lia. apply to_bits_ones. }
  assert (G : xor_bits (to_bits W (kval C xs)) (to_bits W (2 ^ N.of_nat (K * B) - 1)) =
              map negb (encode B xs) ++ repeat false (W - K * B)).
  { rewrite TB, M. rewrite xor_bits_app by (rewrite repeat_length; exact L).
    rewrite <- L at 1. now rewrite xor_ones, xor_zeros. }
  destruct (W <=? K * B) eqn:E.
  - apply Nat.leb_le in E. replace (N.of_nat W) with (N.of_nat (K * B)) by (f_equal; lia).
    rewrite G. apply of_bits_app_zeros.
  - rewrite G. apply of_bits_app_zeros.
Qed.

(* lifted to symbols when the bit flip of a symbol is a symbol map g *)
Theorem kcomplement_spec (g : N -> N) xs :
  length xs = K ->
  (forall x, map negb (to_bits B x) = to_bits B (g x)) ->
  kcomplement C K W (kval C xs) = kval C (map g xs).
Proof.
  intros HK Hg. rewrite kcomplement_bits by exact HK. unfold kval. f_equal.
  unfold encode. rewrite <- flat_map_concat_map, <- flat_map_concat_map.
  clear HK. induction xs as [|x xs IH]; cbn [flat_map map]; [reflexivity|].
  rewrite map_app, Hg, IH. reflexivity.
Qed.

(* ---------------- the k-mer iterator (C08) ---------------- *)
Lemma kmers_from_spec xs i fuel :
  length xs + 1 - i < fuel ->
  kmers_from C dbg K W (encode B xs) (length xs) i fuel =
    Some (Done (map (fun j => kval C (sub xs j K)) (seq i (length xs + 1 - K - i)))).
Proof.
  revert i. induction fuel as [|f IH]; intros i Hf; [lia|].
  cbn [kmers_from]. destruct (length xs <? i + K) eqn:E.
  - apply Nat.ltb_lt in E. replace (length xs + 1 - K - i) with 0 by lia. reflexivity.
  - apply Nat.ltb_ge in E.
    rewrite (index_range_in C xs i (i + K)) by lia. cbn [bind].
    replace (i + K - i) with K by lia.
    assert (HL : length (firstn K (skipn i xs)) = K).
    { rewrite firstn_length, skipn_length. lia. }
    unfold unsafe_from. rewrite (slen_encode C OK), HL, Nat.eqb_refl, orb_true_r. cbn [assert bind].
    rewrite (from_bitslice_encode C OK K W Kpos Fits) by exact HL. cbn [bind].
    rewrite IH by lia. cbn [bind]. unfold ret.
    replace (length xs + 1 - K - i) with (S (length xs + 1 - K - (i + 1))) by lia.
    cbn [seq map]. replace (i + 1) with (S i) by lia. reflexivity.
Qed.

(* iterating the K-mers yields exactly max(0, n-K+1) k-mers, the i-th holding symbols i..i+K:
   the same slices as the overlapping-windows iterator of width K *)
Theorem kmers_spec xs :
  kmers C dbg K W (encode B xs) =
    Some (Done (map (fun j => kval C (sub xs j K)) (seq 0 (length xs + 1 - K)))).
Proof.
  unfold kmers. rewrite (slen_encode C OK). rewrite kmers_from_spec by lia.
  now rewrite Nat.sub_0_r.
Qed.

Theorem kmers_are_windows xs :
  exists ws, windows C (encode B xs) K = Some (Done ws) /\
             kmers C dbg K W (encode B xs) = Some (Done (map of_bits ws)).
Proof.
  eexists. split; [apply (windows_spec C OK); exact Kpos|].
  rewrite kmers_spec, map_map. reflexivity.
Qed.

End KmerProofs2.
