(* SymMap.v — position-wise symbol maps on sequences (complement, mask, unmask) and their
   algebra with reverse: everything reduces to point-wise facts on the codec's items, which are
   decided by complete enumeration of the regenerated tables. *)
From Coq Require Import List Arith NArith Lia Bool.
From BioSeq Require Import Bits Codec SeqModel SeqProofs SeqProofs2.
Import ListNotations.

Section SymMap.
Variable C : codec.
Hypothesis OK : codec_ok C.
Let B := c_bits C.

Definition items_list (xs : list N) : Prop := Forall (fun x => In x (c_items C)) xs.

(* a table function made total (identity where the table has no entry) *)
Definition total (f : N -> res N) (x : N) : N := match f x with Some y => y | None => x end.

(* f maps items to items *)
Definition closed_on_items (f : N -> res N) : Prop :=
  forall x, In x (c_items C) -> exists y, f x = Some y /\ In y (c_items C).
Definition closedb (f : N -> res N) : bool :=
  forallb (fun x => match f x with Some y => inb y (c_items C) | None => false end) (c_items C).
Lemma closedb_sound f : closedb f = true -> closed_on_items f.
Proof.
  unfold closedb, closed_on_items. intros H x Hx. rewrite forallb_forall in H.
  specialize (H x Hx). destruct (f x) as [y|]; [|discriminate].
  exists y. split; [reflexivity | apply inb_spec; exact H].
Qed.

Lemma total_items f xs : closed_on_items f -> items_list xs -> items_list (map (total f) xs).
Proof.
  intros Hc Hx. unfold items_list in *. rewrite Forall_forall in *. intros y Hy.
  apply in_map_iff in Hy. destruct Hy as [x [<- Hin]].
  destruct (Hc x (Hx x Hin)) as [z [E Hz]]. unfold total. rewrite E. exact Hz.
Qed.

(* the sequence-level operation is the position-wise map, and preserves length *)
Theorem map_syms_items f xs :
  closed_on_items f -> items_list xs ->
  map_syms C f (encode B xs) = Some (encode B (map (total f) xs)).
Proof.
  intros Hc Hx. apply (map_syms_spec C OK f (total f) xs).
  - apply (items_small C OK). exact Hx.
  - apply (items_canon C OK). exact Hx.
  - intros x Hin. unfold items_list in Hx. rewrite Forall_forall in Hx.
    destruct (Hc x (Hx x Hin)) as [y [E _]]. unfold total. rewrite E. reflexivity.
Qed.

(* two pipelines of symbol maps agree when they agree point-wise on the items *)
Definition agree_on_items (h1 h2 : N -> N) : Prop :=
  forall x, In x (c_items C) -> h1 x = h2 x.
Definition agreeb (h1 h2 : N -> N) : bool :=
  forallb (fun x => N.eqb (h1 x) (h2 x)) (c_items C).
Lemma agreeb_sound h1 h2 : agreeb h1 h2 = true -> agree_on_items h1 h2.
Proof.
  unfold agreeb, agree_on_items. intros H x Hx. rewrite forallb_forall in H.
  apply N.eqb_eq. apply H. exact Hx.
Qed.

Lemma map_agree h1 h2 xs : agree_on_items h1 h2 -> items_list xs -> map h1 xs = map h2 xs.
Proof.
  intros Ha Hx. apply map_ext_in. intros x Hin. apply Ha.
  unfold items_list in Hx. rewrite Forall_forall in Hx. apply Hx. exact Hin.
Qed.

(* composition of two symbol maps *)
Theorem map_syms_compose f g xs :
  closed_on_items f -> closed_on_items g -> items_list xs ->
  (do s <- map_syms C f (encode B xs); map_syms C g s) =
  Some (encode B (map (fun x => total g (total f x)) xs)).
Proof.
  intros Hf Hg Hx. rewrite map_syms_items by assumption. cbn [bind].
  rewrite map_syms_items by (try assumption; apply total_items; assumption).
  now rewrite map_map.
Qed.

(* involution: applying the map twice restores the original *)
Theorem map_syms_involutive f xs :
  closed_on_items f -> agree_on_items (fun x => total f (total f x)) (fun x => x) ->
  items_list xs ->
  (do s <- map_syms C f (encode B xs); map_syms C f s) = Some (encode B xs).
Proof.
  intros Hf Hi Hx. rewrite map_syms_compose by assumption.
  rewrite (map_agree _ (fun x => x)) by assumption. now rewrite map_id.
Qed.

(* a symbol map commutes with reversal *)
Theorem map_syms_rev_commute f xs :
  closed_on_items f -> items_list xs ->
  (do s <- map_syms C f (encode B xs); Some (seq_rev C s)) =
  map_syms C f (seq_rev C (encode B xs)).
Proof.
  intros Hf Hx. rewrite map_syms_items by assumption. cbn [bind].
  rewrite !(rev_spec C OK).
  rewrite map_syms_items; [now rewrite map_rev | assumption |].
  unfold items_list. apply Forall_rev. exact Hx.
Qed.

(* reverse-complement: both at once; either order of composition; involutive *)
Theorem revcomp_spec xs :
  closed_on_items (comp_sym C) -> items_list xs ->
  seq_revcomp C (encode B xs) = Some (encode B (rev (map (total (comp_sym C)) xs))).
Proof.
  intros Hf Hx. unfold seq_revcomp, seq_comp. rewrite map_syms_items by assumption.
  cbn [bind ret]. now rewrite (rev_spec C OK).
Qed.

Theorem revcomp_either_order xs :
  closed_on_items (comp_sym C) -> items_list xs ->
  seq_revcomp C (encode B xs) = seq_comp C (seq_rev C (encode B xs)).
Proof.
  intros Hf Hx. unfold seq_revcomp. unfold seq_comp.
  pose proof (map_syms_rev_commute (comp_sym C) xs Hf Hx) as H.
  rewrite <- H. destruct (map_syms C (comp_sym C) (encode B xs)); reflexivity.
Qed.

Theorem revcomp_involutive xs :
  closed_on_items (comp_sym C) ->
  agree_on_items (fun x => total (comp_sym C) (total (comp_sym C) x)) (fun x => x) ->
  items_list xs ->
  (do s <- seq_revcomp C (encode B xs); seq_revcomp C s) = Some (encode B xs).
Proof.
  intros Hf Hi Hx. rewrite revcomp_spec by assumption. cbn [bind].
  rewrite revcomp_spec.
  - rewrite map_rev, rev_involutive, map_map.
    rewrite (map_agree _ (fun x => x)) by assumption. now rewrite map_id.
  - assumption.
  - unfold items_list. apply Forall_rev. apply total_items; assumption.
Qed.

(* two different maps commute at sequence level when they commute on items (mask vs complement) *)
Theorem map_syms_commute f g xs :
  closed_on_items f -> closed_on_items g ->
  agree_on_items (fun x => total g (total f x)) (fun x => total f (total g x)) ->
  items_list xs ->
  (do s <- map_syms C f (encode B xs); map_syms C g s) =
  (do s <- map_syms C g (encode B xs); map_syms C f s).
Proof.
  intros Hf Hg Ha Hx. rewrite !map_syms_compose by assumption.
  now rewrite (map_agree _ _ xs Ha Hx).
Qed.

(* g after f equals h (e.g. unmask after mask equals unmask; mask after mask equals mask) *)
Theorem map_syms_absorb f g h xs :
  closed_on_items f -> closed_on_items g -> closed_on_items h ->
  agree_on_items (fun x => total g (total f x)) (total h) ->
  items_list xs ->
  (do s <- map_syms C f (encode B xs); map_syms C g s) = map_syms C h (encode B xs).
Proof.
  intros Hf Hg Hh Ha Hx. rewrite map_syms_compose by assumption.
  rewrite (map_syms_items h) by assumption. now rewrite (map_agree _ _ xs Ha Hx).
Qed.

End SymMap.
