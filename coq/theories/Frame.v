(* Frame.v — "edits never disturb symbols outside the edited region", stated outright.
   Every edit of History.v's list machine [lstep] (which C06_any_history proves the bit-level
   model follows for every finite history, and which the correspondence check compares with the
   library) is a SPLICE: there is a position p, a number d of removed symbols and a list ins of
   inserted ones, all read off the operation ([region]), such that the new content is
   firstn p xs ++ ins ++ skipn (p + d) xs.  Consequently the first p symbols keep their value and
   place, the symbols from p + d on keep their value and move by |ins| - d, and the length changes
   by exactly |ins| - d.  Nothing else can change. *)
From Coq Require Import List Arith NArith Lia Bool.
From BioSeq Require Import Bits Codec Tables SeqModel SeqProofs History Refine Nested.
Import ListNotations.

Definition region (xs : list N) (o : eop) : nat * nat * list N :=
  match o with
  | EPush x => (length xs, 0, [x])
  | EExtend ys => (length xs, 0, ys)
  | EAppend ys => (length xs, 0, ys)
  | EPrepend ys => (0, 0, ys)
  | EInsert i ys => (i, 0, ys)
  | ERemove f a b => let (st, en) := lbounds (length xs) f a b in (st, en - st, [])
  | ETruncate n => (Nat.min n (length xs), length xs - Nat.min n (length xs), [])
  | EClear => (0, length xs, [])
  end.

Definition splice (xs : list N) (p d : nat) (ins : list N) : list N :=
  firstn p xs ++ ins ++ skipn (p + d) xs.

Theorem lstep_is_splice xs o ys :
  lstep xs o = Some ys ->
  match region xs o with
  | (p, d, ins) => p + d <= length xs /\ ys = splice xs p d ins
  end.
Proof.
  unfold splice. destruct o as [x|zs|zs|zs|i zs|f a b|n|]; cbn [lstep region].
  - intros H; injection H as <-. split; [lia|].
    rewrite Nat.add_0_r, firstn_all, skipn_all. now rewrite app_nil_r.
  - intros H; injection H as <-. split; [lia|].
    rewrite Nat.add_0_r, firstn_all, skipn_all. now rewrite app_nil_r.
  - intros H; injection H as <-. split; [lia|].
    rewrite Nat.add_0_r, firstn_all, skipn_all. now rewrite app_nil_r.
  - intros H; injection H as <-. split; [lia|]. reflexivity.
  - destruct (Nat.leb_spec i (length xs)) as [Hi|Hi]; [|discriminate].
    intros H; injection H as <-. split; [lia|]. now rewrite Nat.add_0_r.
  - destruct (lbounds (length xs) f a b) as [st en].
    destruct ((st <=? en) && (en <=? length xs)) eqn:G; [|discriminate].
    apply andb_true_iff in G. destruct G as [G1 G2].
    apply Nat.leb_le in G1. apply Nat.leb_le in G2.
    intros H; injection H as <-. split; [lia|].
    replace (st + (en - st)) with en by lia. reflexivity.
  - intros H; injection H as <-. split; [lia|].
    replace (Nat.min n (length xs) + (length xs - Nat.min n (length xs))) with (length xs) by lia.
    rewrite skipn_all. cbn [app]. rewrite app_nil_r.
    destruct (Nat.le_ge_cases n (length xs)) as [L|L].
    + now rewrite Nat.min_l by exact L.
    + rewrite Nat.min_r by exact L. now rewrite firstn_all, firstn_all2 by exact L.
  - intros H; injection H as <-. split; [lia|].
    cbn [firstn plus app]. now rewrite skipn_all.
Qed.

(* what a splice leaves alone *)
Theorem splice_frame xs p d ins :
  p + d <= length xs ->
  length (splice xs p d ins) + d = length xs + length ins /\
  (forall i, i < p -> nth i (splice xs p d ins) 0%N = nth i xs 0%N) /\
  (forall j, j < length ins -> nth (p + j) (splice xs p d ins) 0%N = nth j ins 0%N) /\
  (forall j, nth (p + length ins + j) (splice xs p d ins) 0%N = nth (p + d + j) xs 0%N).
Proof.
  intros Hb. unfold splice.
  assert (Lf : length (firstn p xs) = p) by (rewrite firstn_length; lia).
  split; [|split; [|split]].
  - rewrite !app_length, Lf, skipn_length. lia.
  - intros i Hi. rewrite app_nth1 by lia. now apply nth_firstn_lt.
  - intros j Hj. rewrite app_nth2 by lia. rewrite Lf.
    replace (p + j - p) with j by lia. now rewrite app_nth1 by lia.
  - intros j. rewrite app_nth2 by lia. rewrite Lf.
    replace (p + length ins + j - p) with (length ins + j) by lia.
    rewrite app_nth2 by lia. replace (length ins + j - length ins) with j by lia.
    apply nth_skipn_add.
Qed.

(* the two together, for one edit *)
Theorem edit_disturbs_nothing_outside_region xs o ys :
  lstep xs o = Some ys ->
  match region xs o with
  | (p, d, ins) =>
      p + d <= length xs /\
      length ys + d = length xs + length ins /\
      (forall i, i < p -> nth i ys 0%N = nth i xs 0%N) /\
      (forall j, j < length ins -> nth (p + j) ys 0%N = nth j ins 0%N) /\
      (forall j, nth (p + length ins + j) ys 0%N = nth (p + d + j) xs 0%N)
  end.
Proof.
  intros H. pose proof (lstep_is_splice _ _ _ H) as S.
  destruct (region xs o) as [[p d] ins]. destruct S as [Hb ->].
  split; [exact Hb|]. now apply splice_frame.
Qed.

(* non-vacuity: removing 1..=2 (form 1) of [0;1;2;3;0] keeps symbol 0 and shifts symbols 3,4 *)
Example frame_example :
  lstep [0;1;2;3;0]%N (ERemove 1 1 2) = Some [0;3;0]%N /\
  region [0;1;2;3;0]%N (ERemove 1 1 2) = (1, 2, []).
Proof. split; reflexivity. Qed.

(* ... lifted to the bit-level model after ANY history: whatever edits came before, the next edit
   leaves the packed sequence equal to the packing of the splice — so every bit outside the
   region's image is the bit that was there (shifted by the length change behind the region) *)
Lemma lrun_snoc ops : forall xs ys o zs,
  lrun xs ops = Some ys -> lstep ys o = Some zs -> lrun xs (ops ++ [o]) = Some zs.
Proof.
  induction ops as [|e ops IH]; intros xs ys o zs H1 H2; cbn [lrun app] in *.
  - injection H1 as ->. now rewrite H2.
  - destruct (lstep xs e) as [ws|]; [|discriminate]. now apply (IH ws ys).
Qed.

Theorem next_edit_is_splice_after_any_history (C : codec) (dbg : bool) (OK : codec_ok C)
  ops o xs ys zs :
  lrun xs ops = Some ys -> lstep ys o = Some zs ->
  match region ys o with
  | (p, d, ins) =>
      p + d <= length ys /\
      mrun C dbg (encode (c_bits C) xs) (ops ++ [o]) = Some (encode (c_bits C) (splice ys p d ins)) /\
      (forall i, i < p -> nth i zs 0%N = nth i ys 0%N) /\
      (forall j, nth (p + length ins + j) zs 0%N = nth (p + d + j) ys 0%N)
  end.
Proof.
  intros H1 H2. pose proof (lstep_is_splice _ _ _ H2) as S.
  pose proof (history_refines C dbg OK _ _ _ (lrun_snoc _ _ _ _ _ H1 H2)) as M.
  destruct (region ys o) as [[p d] ins]. destruct S as [Hb ->].
  split; [exact Hb|]. split; [exact M|].
  destruct (splice_frame ys p d ins Hb) as (_ & F1 & _ & F3). split; assumption.
Qed.
