(* Derive.v — model of #[derive(Codec)] (bio-seq-derive/src/lib.rs, codec.rs):
   an enum declaration AST -> the generated codec, with first-arm-wins `match` semantics.
   parse_width's numeric core (u8 add, f32 log2, ceil, cast) is taken extensionally from the
   regenerated table, as a parameter. *)
From Coq Require Import List Arith NArith Lia Bool.
From BioSeq Require Import Bits Codec Tables.
Import ListNotations.
Set Implicit Arguments.

Inductive lit := LInt (v : N) | LByte (v : N) | LOther | LMissing.

Record variant := {
  v_first : N;                (* first byte of the identifier: the default display character *)
  v_disc : lit;               (* discriminant literal *)
  v_alts : list N;            (* #[alt(..)] *)
  v_display : option N        (* #[display('c')] *)
}.

Record decl := { d_bits : option N; d_variants : list variant }.

Inductive dres := Compiled (c : codec) | CompileError.

Section Derive.
(* parse_width: attribute (None | Some n) -> max discriminant -> result *)
Variable width_fn : option N -> N -> wres.

Definition disc_val (v : variant) : option N :=
  match v_disc v with
  | LInt x => if (x <=? 255)%N then Some x else None   (* base10_parse::<u8>().unwrap() panics *)
  | LByte x => Some x
  | _ => None
  end.

Definition char_of (v : variant) : N :=
  match v_display v with Some c => c | None => v_first v end.

(* the arms of `match b` in try_from_bits / unsafe_from_bits, in source order *)
Definition arms_of (v : variant) (d : N) : list (N * N) :=
  (d, d) :: map (fun a => (a, d)) (v_alts v).

Fixpoint all_discs (vs : list variant) : option (list N) :=
  match vs with
  | [] => Some []
  | v :: t => match disc_val v, all_discs t with
              | Some d, Some r => Some (d :: r)
              | _, _ => None
              end
  end.

Definition first_match (arms : list (N * N)) (b : N) : option N :=
  option_map snd (find (fun p => N.eqb (fst p) b) arms).

Definition derive_body (d : decl) (vs : list variant) : dres :=
    match all_discs vs with
    | None => CompileError
    | Some ds =>
      (* rustc rejects equal discriminants (E0081) *)
      if negb (nodupb ds) then CompileError else
      let maxd := fold_left N.max ds 0%N in
      match width_fn (d_bits d) maxd with
      | WOk w =>
        let arms := concat (map (fun vd => arms_of (fst vd) (snd vd)) (combine vs ds)) in
        let from_chars := map (fun vd => (char_of (fst vd), snd vd)) (combine vs ds) in
        let to_chars := map (fun vd => (snd vd, char_of (fst vd))) (combine vs ds) in
        let tb := map (first_match arms) bytes256 in
        let ta := map (first_match from_chars) bytes256 in
        let ch := map (fun b => match first_match arms b with
                                | Some s => if N.eqb s b then first_match to_chars s else None
                                | None => None
                                end) bytes256 in
        Compiled {| c_bits := N.to_nat w; c_items := ds;
                    c_try_bits := tb; c_un_bits := tb;
                    c_try_ascii := ta; c_un_ascii := ta;
                    c_char := ch;
                    c_comp := repeat None 256; c_has_comp := false;
                    c_mask := repeat None 256; c_unmask := repeat None 256; c_has_mask := false |}
      | _ => CompileError
      end
    end.

Definition derive (d : decl) : dres :=
  match d_variants d with
  | [] => CompileError      (* `match b { , _ => .. }` does not parse *)
  | _ :: _ => derive_body d (d_variants d)
  end.

End Derive.

(* field-by-field comparison of the derive-governed part of two codecs *)
Definition olist_eqb (a b : list (option N)) : bool :=
  (length a =? length b) && forallb (fun p => opt_eqb (fst p) (snd p)) (combine a b).
Definition nlist_eqb (a b : list N) : bool :=
  (length a =? length b) && forallb (fun p => N.eqb (fst p) (snd p)) (combine a b).

(* the unchecked decoders are only specified where the fallible ones succeed: [a] is the model
   (whose unchecked table equals its fallible one), [b] the compiled codec *)
Definition olist_agree_where_some (a b : list (option N)) : bool :=
  (length a =? length b) &&
  forallb (fun p => match fst p with Some _ => opt_eqb (fst p) (snd p) | None => true end) (combine a b).

Definition codec_derived_eqb (a b : codec) : bool :=
  (c_bits a =? c_bits b) && nlist_eqb (c_items a) (c_items b) &&
  olist_eqb (c_try_bits a) (c_try_bits b) && olist_agree_where_some (c_un_bits a) (c_un_bits b) &&
  olist_eqb (c_try_ascii a) (c_try_ascii b) && olist_agree_where_some (c_un_ascii a) (c_un_ascii b) &&
  olist_eqb (c_char a) (c_char b).

Definition derives_to (width_fn : option N -> N -> wres) (d : decl) (c : codec) : bool :=
  match derive width_fn d with
  | Compiled c' => codec_derived_eqb c' c
  | CompileError => false
  end.

Definition rejects (width_fn : option N -> N -> wres) (d : decl) : bool :=
  match derive width_fn d with Compiled _ => false | CompileError => true end.

(* the width function read off the regenerated tables *)
Definition width_of_tables (none : list wres) (attr : list (list wres)) (a : option N) (m : N) : wres :=
  match a with
  | None => nth (N.to_nat m) none WPanic
  | Some n => nth (N.to_nat m) (nth (N.to_nat n) attr []) WPanic
  end.

(* the specification of the width: least n with m < 2^n *)
Fixpoint minbits_aux (fuel : nat) (n : N) (m : N) : N :=
  match fuel with
  | O => n
  | S f => if (m <? 2 ^ n)%N then n else minbits_aux f (n + 1)%N m
  end.
Definition minbits (m : N) : N := minbits_aux 9 0%N m.

Definition width_spec (a : option N) (m : N) : wres :=
  match a with
  | None => WOk (minbits m)
  | Some n => if (n <? minbits m)%N then WErr else WOk n
  end.

Definition wres_eqb (a b : wres) : bool :=
  match a, b with
  | WOk x, WOk y => N.eqb x y
  | WErr, WErr | WPanic, WPanic => true
  | _, _ => false
  end.

(* parse_width agrees with its specification on its whole numeric domain *)
Definition width_tables_ok (none : list wres) (attr : list (list wres)) : bool :=
  forallb (fun m => wres_eqb (width_of_tables none attr None m) (width_spec None m)) bytes256 &&
  forallb (fun n => forallb (fun m =>
      wres_eqb (width_of_tables none attr (Some n) m) (width_spec (Some n) m)) bytes256)
    (map N.of_nat (seq 0 9)).

Definition width_witness (none : list wres) (attr : list (list wres)) : option (option N * N) :=
  match find (fun m => negb (wres_eqb (width_of_tables none attr None m) (width_spec None m))) bytes256 with
  | Some m => Some (None, m)
  | None =>
      let bad := flat_map (fun n => map (fun m => (n, m))
                   (filter (fun m => negb (wres_eqb (width_of_tables none attr (Some n) m)
                                                    (width_spec (Some n) m))) bytes256))
                   (map N.of_nat (seq 0 9)) in
      match bad with (n, m) :: _ => Some (Some n, m) | [] => None end
  end.
