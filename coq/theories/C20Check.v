(* C20Check.v — symbol-level facts about soft-masking, decided by complete enumeration of the
   items of the two maskable codecs (regenerated tables), each with its soundness lemma. *)
From Coq Require Import List Arith NArith Lia Bool.
From BioSeq Require Import Bits Codec Spec SeqModel SymMap.
Import ListNotations.
Local Open Scope N_scope.

Section Masked.
Variable C : codec.

(* 5-bit IUPAC: the gap '-' has the masked form '.' *)
Definition lower5 (c : N) : N := if c =? 45 then 46 else lower c   (* '-' -> '.' *).
Definition upper5 (c : N) : N := if c =? 46 then 45 else upper c   (* '.' -> '-' *).

(* masking gives the lower-case form, unmasking the upper-case form, and the nucleotide set
   (bits 4,3,1,0 of the code) never changes *)
Definition mask5_ok : Prop :=
  forall x c, In x (c_items C) -> to_char C x = Some c ->
    exists m u, mask_sym C x = Some m /\ unmask_sym C x = Some u /\
                to_char C m = Some (lower5 c) /\ to_char C u = Some (upper5 c) /\
                N.land m 27 = N.land x 27 /\ N.land u 27 = N.land x 27.

Definition mask5_okb : bool :=
  forallb (fun x => match to_char C x, mask_sym C x, unmask_sym C x with
                    | Some c, Some m, Some u =>
                        opt_eqb (to_char C m) (Some (lower5 c)) &&
                        opt_eqb (to_char C u) (Some (upper5 c)) &&
                        (N.land m 27 =? N.land x 27) && (N.land u 27 =? N.land x 27)
                    | None, _, _ => true
                    | _, _, _ => false
                    end) (c_items C).

Lemma mask5_okb_sound : mask5_okb = true -> mask5_ok.
Proof.
  unfold mask5_okb, mask5_ok. intros H x c Hx Hc. rewrite forallb_forall in H.
  specialize (H x Hx). rewrite Hc in H.
  destruct (mask_sym C x) as [m|]; [|discriminate].
  destruct (unmask_sym C x) as [u|]; [|discriminate].
  apply andb_prop in H. destruct H as [H H4]. apply andb_prop in H. destruct H as [H H3].
  apply andb_prop in H. destruct H as [H1 H2].
  exists m, u. repeat split; try reflexivity.
  - apply opt_eqb_spec. exact H1.
  - apply opt_eqb_spec. exact H2.
  - apply N.eqb_eq. exact H3.
  - apply N.eqb_eq. exact H4.
Qed.

(* 4-bit masked DNA: mask and unmask are the same involution; it toggles the case of
   A, C, G, T, N and leaves gap and pad unchanged *)
Definition toggle (c : N) : N :=
  if (65 <=? c) && (c <=? 90) then c + 32 else if (97 <=? c) && (c <=? 122) then c - 32 else c.
Definition is_acgtn (c : N) : bool :=
  existsb (N.eqb (upper c)) [65; 67; 71; 84; 78]   (* A C G T N *).
Definition is_gap_pad (c : N) : bool := (c =? 45) || (c =? 46).

Definition mask4_ok : Prop :=
  forall x c, In x (c_items C) -> to_char C x = Some c ->
    exists m, mask_sym C x = Some m /\ unmask_sym C x = Some m /\
      (is_acgtn c = true -> to_char C m = Some (toggle c)) /\
      (is_gap_pad c = true -> m = x).

Definition mask4_okb : bool :=
  forallb (fun x => match to_char C x, mask_sym C x with
                    | Some c, Some m =>
                        opt_eqb (unmask_sym C x) (Some m) &&
                        (if is_acgtn c then opt_eqb (to_char C m) (Some (toggle c)) else true) &&
                        (if is_gap_pad c then m =? x else true)
                    | None, _ => true
                    | _, None => false
                    end) (c_items C).

Lemma mask4_okb_sound : mask4_okb = true -> mask4_ok.
Proof.
  unfold mask4_okb, mask4_ok. intros H x c Hx Hc. rewrite forallb_forall in H.
  specialize (H x Hx). rewrite Hc in H.
  destruct (mask_sym C x) as [m|]; [|discriminate].
  apply andb_prop in H. destruct H as [H H3]. apply andb_prop in H. destruct H as [H1 H2].
  exists m. split; [reflexivity|]. split; [apply opt_eqb_spec; exact H1|]. split.
  - intros E. rewrite E in H2. apply opt_eqb_spec. exact H2.
  - intros E. rewrite E in H3. apply N.eqb_eq. exact H3.
Qed.

End Masked.
