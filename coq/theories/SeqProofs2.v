(* SeqProofs2.v — parsing/display (C01), equality and hashing (C02), integer views and the raw
   word image (C04), trimming (C19), bitwise set operations (C12). *)
From Coq Require Import List Arith NArith Lia Bool.
From BioSeq Require Import Bits Codec SeqModel SeqProofs.
Import ListNotations.

Section Proofs2.
Variable C : codec.
Variable dbg : bool.
Hypothesis OK : codec_ok C.

Let B := c_bits C.
Let Bpos := Bpos C OK.

(* ---------------- C01: parse ---------------- *)
(* the symbols of a byte string, when every byte is a symbol character *)
Definition ascii_syms (l : list N) : option (list N) := mapM (try_ascii C) l.

Theorem parse_ok l xs : ascii_syms l = Some xs -> parse C l = inl (encode B xs).
Proof.
  unfold ascii_syms. revert xs. induction l as [|b t IH]; intros xs H; cbn [mapM] in H.
  - inversion H. reflexivity.
  - cbn [parse]. destruct (try_ascii C b) as [x|]; [|discriminate]. cbn [bind] in H.
    destruct (mapM (try_ascii C) t) as [r|]; [|discriminate]. cbn [bind ret] in H.
    inversion H; subst. rewrite (IH r eq_refl). fold B. reflexivity.
Qed.

(* any invalid byte: parsing fails and reports the FIRST such byte *)
Theorem parse_first_bad pre b post :
  (exists xs, ascii_syms pre = Some xs) -> try_ascii C b = None ->
  parse C (pre ++ b :: post) = inr b.
Proof.
  intros [xs Hx] Hb. unfold ascii_syms in Hx. revert xs Hx.
  induction pre as [|p pre IH]; intros xs Hx; cbn [app parse].
  - rewrite Hb. reflexivity.
  - cbn [mapM] in Hx. destruct (try_ascii C p) as [x|]; [|discriminate]. cbn [bind] in Hx.
    destruct (mapM (try_ascii C) pre) as [r|]; [|discriminate].
    rewrite (IH r eq_refl). reflexivity.
Qed.

(* the two cases are exhaustive: a byte string is all-valid or splits at its first bad byte *)
Theorem parse_cases l :
  (exists xs, ascii_syms l = Some xs) \/
  (exists pre b post, l = pre ++ b :: post /\ (exists xs, ascii_syms pre = Some xs) /\
                      try_ascii C b = None).
Proof.
  unfold ascii_syms. induction l as [|b t IH].
  - left. exists []. reflexivity.
  - destruct (try_ascii C b) as [x|] eqn:E.
    + destruct IH as [[xs H]|[pre [b' [post [H1 [[xs H2] H3]]]]]].
      * left. exists (x :: xs). cbn [mapM]. rewrite E. cbn [bind]. rewrite H. reflexivity.
      * right. exists (b :: pre), b', post. split; [subst; reflexivity|]. split; [|exact H3].
        exists (x :: xs). cbn [mapM]. rewrite E. cbn [bind]. rewrite H2. reflexivity.
    + right. exists [], b, t. repeat split; [exists []; reflexivity | exact E].
Qed.

(* parsing succeeds EXACTLY when every byte is a symbol character *)
Theorem parse_succeeds_iff l :
  (exists s, parse C l = inl s) <-> (exists xs, ascii_syms l = Some xs).
Proof.
  split.
  - intros [s Hs]. destruct (parse_cases l) as [H|[pre [b [post [H1 [H2 H3]]]]]]; [exact H|].
    subst l. rewrite (parse_first_bad pre b post H2 H3) in Hs. discriminate.
  - intros [xs H]. exists (encode B xs). apply parse_ok. exact H.
Qed.

Lemma mapM_length {X Y} (f : X -> res Y) l r : mapM f l = Some r -> length r = length l.
Proof.
  revert r. induction l as [|x l IH]; intros r H; cbn [mapM] in H.
  - inversion H. reflexivity.
  - destruct (f x); [|discriminate]. cbn [bind] in H. destruct (mapM f l); [|discriminate].
    inversion H. cbn [length]. f_equal. apply IH. reflexivity.
Qed.

Lemma mapM_Forall {X Y} (f : X -> res Y) (P : Y -> Prop) l r :
  mapM f l = Some r -> (forall x y, In x l -> f x = Some y -> P y) -> Forall P r.
Proof.
  revert r. induction l as [|x l IH]; intros r H HP; cbn [mapM] in H.
  - inversion H. constructor.
  - destruct (f x) as [y|] eqn:E; [|discriminate]. cbn [bind] in H.
    destruct (mapM f l) as [r'|]; [|discriminate]. inversion H; subst. constructor.
    + apply (HP x y); [left; reflexivity | exact E].
    + apply IH; [reflexivity|]. intros x' y' Hin. apply HP. right. exact Hin.
Qed.

(* parsed symbols are items; items are small and canonical *)
Lemma ascii_syms_items l xs :
  ascii_syms l = Some xs -> Forall (fun x => In x (c_items C)) xs.
Proof.
  intros H. unfold ascii_syms in H. eapply mapM_Forall; [exact H|].
  intros b y _ Hy. cbv beta.
  assert (Hb : (b < 256)%N).
  { eapply tget_some_lt; [apply (@ok_len_try_ascii C OK) | exact Hy]. }
  apply (@ok_try_ascii C OK b y Hb Hy).
Qed.

Lemma items_small xs : Forall (fun x => In x (c_items C)) xs -> Forall (smallc C) xs.
Proof.
  apply Forall_impl. intros x Hx. destruct (@ok_item C OK x Hx) as [H _]. exact H.
Qed.

Lemma items_canon xs : Forall (fun x => In x (c_items C)) xs -> canonl C xs.
Proof.
  apply Forall_impl. intros x Hx. destruct (@ok_item C OK x Hx) as [_ [_ [H _]]]. exact H.
Qed.

(* one symbol per byte, in order *)
Theorem parse_symbols l xs :
  ascii_syms l = Some xs ->
  parse C l = inl (encode B xs) /\ slen C (encode B xs) = length l /\
  iter C (encode B xs) = Some xs.
Proof.
  intros H. pose proof (ascii_syms_items l xs H) as Hi.
  split; [apply parse_ok; exact H|]. split.
  - rewrite (slen_encode C OK). unfold ascii_syms in H. apply (mapM_length _ _ _ H).
  - apply (iter_spec C OK); [apply items_small | apply items_canon]; exact Hi.
Qed.

(* display of a sequence of items: the display character of each symbol, and it parses back *)
Theorem display_items xs :
  Forall (fun x => In x (c_items C)) xs ->
  exists d, display C (encode B xs) = Some d /\ length d = length xs /\ ascii_syms d = Some xs.
Proof.
  intros Hi. unfold display.
  rewrite (iter_spec C OK) by (try apply items_small; try apply items_canon; exact Hi).
  cbn [bind]. unfold ascii_syms, char_of.
  induction xs as [|x xs IH].
  - exists []. repeat split.
  - inversion Hi as [|? ? Hx Hxs]; subst.
    destruct (IH Hxs) as [d [Hd [Hl Ha]]].
    destruct (@ok_item C OK x Hx) as [_ [_ [_ [c [Hc [_ [Hta _]]]]]]].
    exists (c :: d). cbn [mapM]. rewrite Hc. cbn [bind]. rewrite Hd. cbn [bind ret].
    repeat split.
    + cbn [length]. now rewrite Hl.
    + rewrite Hta. cbn [bind]. rewrite Ha. reflexivity.
Qed.

(* display -> parse -> display is the identity *)
Theorem display_parse_display xs :
  Forall (fun x => In x (c_items C)) xs ->
  exists d, display C (encode B xs) = Some d /\ parse C d = inl (encode B xs).
Proof.
  intros Hi. destruct (display_items xs Hi) as [d [Hd [_ Ha]]].
  exists d. split; [exact Hd | apply parse_ok; exact Ha].
Qed.

(* ---------------- C02: equality and hashing ---------------- *)
Lemma bits_eqb_eq a b : bits_eqb a b = true <-> a = b.
Proof.
  revert b. induction a as [|x a IH]; intros [|y b]; cbn [bits_eqb]; split; intro H;
    try reflexivity; try discriminate.
  - apply andb_prop in H. destruct H as [H1 H2]. apply eqb_prop in H1. apply IH in H2. now subst.
  - inversion H; subst. rewrite eqb_reflx. cbn [andb]. apply IH. reflexivity.
Qed.

(* equal exactly when same length and same symbols *)
Theorem eq_iff_same_symbols xs ys :
  Forall (smallc C) xs -> Forall (smallc C) ys ->
  (seq_eqb (encode B xs) (encode B ys) = true <-> xs = ys).
Proof.
  intros Hx Hy. unfold seq_eqb. rewrite bits_eqb_eq. split.
  - apply encode_inj; [apply Bpos | exact Hx | exact Hy].
  - intros ->. reflexivity.
Qed.

(* sequences that compare equal feed identical data to any hasher *)
Theorem eq_same_hash_feed a b : seq_eqb a b = true -> hash_feed C a = hash_feed C b.
Proof. unfold seq_eqb. rewrite bits_eqb_eq. intros ->. reflexivity. Qed.

(* and different symbol lists feed different data (so the partition of feeds is the partition of
   contents) *)
Lemma map_bit_inj (a b : bits) :
  map (fun x : bool => if x then 1%N else 0%N) a = map (fun x : bool => if x then 1%N else 0%N) b ->
  a = b.
Proof.
  revert b. induction a as [|x a IH]; intros [|y b] H; cbn [map] in H; try discriminate; [reflexivity|].
  inversion H as [[H1 H2]]. f_equal; [|apply IH; exact H2]. destruct x, y; try reflexivity; discriminate.
Qed.

Theorem hash_feed_inj a b :
  length a = length b -> hash_feed C a = hash_feed C b -> a = b.
Proof.
  intros Hl H. unfold hash_feed in H.
  assert (E : slen C a = slen C b) by (unfold slen; now rewrite Hl).
  rewrite E in H. apply app_inv_tail in H. apply map_bit_inj. exact H.
Qed.

(* comparison with text: equal to its own displayed text and to no other *)
Lemma eq_str_syms_spec xs bs :
  length bs = length xs ->
  (eq_str_syms C xs bs = true <-> ascii_syms bs = Some xs).
Proof.
  unfold ascii_syms. revert bs. induction xs as [|x xs IH]; intros [|b bs] Hl; cbn [length] in Hl;
    try discriminate; cbn [eq_str_syms mapM].
  - split; reflexivity.
  - destruct (try_ascii C b) as [y|]; cbn [bind].
    + destruct (N.eqb_spec x y) as [->|Hne].
      * rewrite IH by lia. destruct (mapM (try_ascii C) bs) as [r|]; cbn [bind ret]; split; intro H;
          try discriminate; inversion H; subst; reflexivity.
      * split; [discriminate|]. intros H. destruct (mapM (try_ascii C) bs); cbn [bind ret] in H;
          inversion H. congruence.
    + split; discriminate.
Qed.

Theorem eq_str_spec xs bs :
  Forall (smallc C) xs -> canonl C xs ->
  eq_str C (encode B xs) bs = Some (match ascii_syms bs with
                                    | Some ys => if list_eq_dec N.eq_dec ys xs then true else false
                                    | None => false
                                    end).
Proof.
  intros Hs Hc. unfold eq_str. rewrite (slen_encode C OK).
  destruct (length bs =? length xs) eqn:E; cbn [negb].
  - apply Nat.eqb_eq in E. rewrite (iter_spec C OK) by assumption. cbn [bind]. unfold ret.
    apply f_equal.
    pose proof (eq_str_syms_spec xs bs E) as S.
    destruct (ascii_syms bs) as [ys|].
    + destruct (list_eq_dec N.eq_dec ys xs) as [->|Hne].
      * apply (proj2 S). reflexivity.
      * destruct (eq_str_syms C xs bs); [|reflexivity]. exfalso. apply Hne.
        assert (Some ys = Some xs) by (apply (proj1 S); reflexivity). congruence.
    + destruct (eq_str_syms C xs bs); [|reflexivity].
      assert (@None (list N) = Some xs) by (apply (proj1 S); reflexivity). discriminate.
  - apply Nat.eqb_neq in E. unfold ret. apply f_equal.
    destruct (ascii_syms bs) as [ys|] eqn:A; [|reflexivity].
    destruct (list_eq_dec N.eq_dec ys xs) as [->|]; [|reflexivity].
    exfalso. apply E. unfold ascii_syms in A. symmetry. apply (mapM_length _ _ _ A).
Qed.

(* ---------------- C04: integer view ---------------- *)
(* the integer of a non-empty sequence that fits a word: sum of code_i * 2^(i*BITS) *)
Theorem to_usize_spec xs :
  Forall (smallc C) xs ->
  to_usize C (encode B xs) =
    if B * length xs <=? 64
    then (if 1 <=? B * length xs then Some (UOk (pack (2 ^ N.of_nat B) xs)) else None)
    else Some (UTooLong (length xs) (64 / B)).
Proof.
  intros Hs. unfold to_usize. rewrite (length_encode C), (slen_encode C OK). fold B.
  destruct (B * length xs <=? 64); [|reflexivity].
  destruct (1 <=? B * length xs); cbn [assert bind ret]; [|reflexivity].
  now rewrite of_bits_encode.
Qed.

Theorem pack_digits_unique xs ys :
  length xs = length ys -> Forall (smallc C) xs -> Forall (smallc C) ys ->
  pack (2 ^ N.of_nat B) xs = pack (2 ^ N.of_nat B) ys -> xs = ys.
Proof.
  intros Hl Hx Hy H. apply (@encode_inj B xs ys Bpos Hx Hy).
  apply of_bits_inj.
  - rewrite !encode_length. now rewrite Hl.
  - rewrite !of_bits_encode by assumption. exact H.
Qed.

(* rebuilding from a word image *)
Theorem from_raw_spec n ws :
  from_raw C n ws =
    if 64 * length ws <? n * B then None
    else Some (firstn (n * B) (words_bits ws)).
Proof.
  unfold from_raw. fold B.
  assert (E : length (words_bits ws) = 64 * length ws).
  { unfold words_bits. rewrite (concat_uniform_length (k := 64)).
    - now rewrite map_length.
    - clear. induction ws; cbn [map]; constructor; [apply to_bits_length | assumption]. }
  rewrite E. reflexivity.
Qed.

(* an image that holds the sequence at bit 0 of word 0 rebuilds to an equal sequence *)
Theorem from_raw_roundtrip xs ws rest :
  words_bits ws = encode B xs ++ rest ->
  from_raw C (length xs) ws = Some (encode B xs).
Proof.
  intros H. unfold from_raw. fold B. rewrite H.
  assert (E : (length (encode B xs ++ rest) <? length xs * B) = false).
  { apply Nat.ltb_ge. rewrite app_length, encode_length. lia. }
  rewrite E. f_equal.
  replace (length xs * B) with (length (encode B xs)) by (rewrite encode_length; lia).
  rewrite firstn_app, firstn_all, Nat.sub_diag, firstn_O, app_nil_r. reflexivity.
Qed.

(* ---------------- C12: bitwise set operations, position-wise ---------------- *)
Lemma and_assign_app a1 a2 b1 b2 :
  length a1 = length b1 ->
  and_assign (a1 ++ a2) (b1 ++ b2) = and_assign a1 b1 ++ and_assign a2 b2.
Proof.
  revert b1. induction a1 as [|x a1 IH]; intros [|y b1] H; cbn [length] in H; try discriminate.
  - reflexivity.
  - cbn [app and_assign]. f_equal. apply IH. lia.
Qed.

Lemma or_assign_app a1 a2 b1 b2 :
  length a1 = length b1 ->
  or_assign (a1 ++ a2) (b1 ++ b2) = or_assign a1 b1 ++ or_assign a2 b2.
Proof.
  revert b1. induction a1 as [|x a1 IH]; intros [|y b1] H; cbn [length] in H; try discriminate.
  - reflexivity.
  - cbn [app or_assign]. f_equal. apply IH. lia.
Qed.

Fixpoint map2 {X} (f : X -> X -> X) (a b : list X) : list X :=
  match a, b with
  | x :: a', y :: b' => f x y :: map2 f a' b'
  | _, _ => []
  end.

(* for symbol-level facts [and_assign (to_bits B x) (to_bits B y) = to_bits B (fand x y)] the
   sequence-level operation is the position-wise map *)
Theorem and_spec (fand : N -> N -> N) xs ys :
  (forall x y, and_assign (to_bits B x) (to_bits B y) = to_bits B (fand x y)) ->
  length xs = length ys ->
  and_assign (encode B xs) (encode B ys) = encode B (map2 fand xs ys).
Proof.
  intros Hf. revert ys. induction xs as [|x xs IH]; intros [|y ys] Hl; cbn [length] in Hl;
    try discriminate; [reflexivity|].
  unfold encode. cbn [map concat map2]. rewrite and_assign_app by (now rewrite !to_bits_length).
  rewrite Hf. f_equal. apply IH. lia.
Qed.

Theorem or_spec (f_or : N -> N -> N) xs ys :
  (forall x y, or_assign (to_bits B x) (to_bits B y) = to_bits B (f_or x y)) ->
  length xs = length ys ->
  or_assign (encode B xs) (encode B ys) = encode B (map2 f_or xs ys).
Proof.
  intros Hf. revert ys. induction xs as [|x xs IH]; intros [|y ys] Hl; cbn [length] in Hl;
    try discriminate; [reflexivity|].
  unfold encode. cbn [map concat map2]. rewrite or_assign_app by (now rewrite !to_bits_length).
  rewrite Hf. f_equal. apply IH. lia.
Qed.

End Proofs2.
