(* SeqProofs.v — the sequence model refines "list of symbol codes".
   Abstraction: a well-formed sequence is [encode B xs] for a unique list xs of codes < 2^B
   (Bits.encode_codes / codes_encode); every operation of SeqModel is characterised on that form. *)
From Coq Require Import List Arith NArith Lia Bool.
From BioSeq Require Import Bits Codec SeqModel.
Import ListNotations.

Section Proofs.
Variable C : codec.
Variable dbg : bool.
Hypothesis OK : codec_ok C.

Let B := c_bits C.

Lemma Bpos : 0 < B.
Proof. unfold B. destruct OK. lia. Qed.
Lemma Ble8 : B <= 8.
Proof. unfold B. destruct OK. lia. Qed.

Definition smallc (x : N) : Prop := small B x.

(* ---------------- lengths ---------------- *)
Lemma slen_encode xs : slen C (encode B xs) = length xs.
Proof.
  unfold slen. fold B. rewrite encode_length. rewrite Nat.mul_comm. apply Nat.div_mul.
  pose proof Bpos. lia.
Qed.

Lemma length_encode xs : length (encode B xs) = B * length xs.
Proof. apply encode_length. Qed.

(* ---------------- slicing (C03) ---------------- *)
Lemma bit_slice_encode xs a b :
  a <= b -> b <= length xs ->
  bit_slice (encode B xs) (a * B) (b * B) = Some (encode B (firstn (b - a) (skipn a xs))).
Proof.
  intros Hab Hb. unfold bit_slice.
  assert (E1 : (a * B <=? b * B) = true) by (apply Nat.leb_le; nia).
  assert (E2 : (b * B <=? length (encode B xs)) = true).
  { apply Nat.leb_le. rewrite length_encode. nia. }
  rewrite E1, E2. cbn [andb assert bind]. unfold ret. apply f_equal.
  replace (a * B) with (B * a) by lia. rewrite encode_skipn.
  replace (b * B - B * a) with (B * (b - a)) by nia. apply encode_firstn.
Qed.

Lemma bit_slice_oob (s : bits) a b : (b < a \/ length s < b) -> bit_slice s a b = None.
Proof.
  intros H. unfold bit_slice.
  destruct H as [H|H].
  - assert (E : (a <=? b) = false) by (apply Nat.leb_gt; lia). rewrite E. reflexivity.
  - assert (E : (b <=? length s) = false) by (apply Nat.leb_gt; lia). rewrite E.
    rewrite andb_false_r. reflexivity.
Qed.

(* in-bounds range a..b : exactly the requested symbols *)
Theorem index_range_in xs a b :
  a <= b -> b <= length xs ->
  index C (encode B xs) 0 a b = Some (encode B (firstn (b - a) (skipn a xs))).
Proof. intros. cbn [index]. fold B. apply bit_slice_encode; assumption. Qed.

(* out of bounds or reversed: panic *)
Theorem index_range_out xs a b :
  (b < a \/ length xs < b) -> index C (encode B xs) 0 a b = None.
Proof.
  intros H. cbn [index]. fold B. apply bit_slice_oob. rewrite length_encode.
  pose proof Bpos. destruct H; [left|right]; nia.
Qed.

(* the other six range forms are instances of a..b *)
Theorem index_forms xs a b :
  index C (encode B xs) 1 a b = index C (encode B xs) 0 a (b + 1) /\
  index C (encode B xs) 2 a b = index C (encode B xs) 0 0 b /\
  index C (encode B xs) 3 a b = index C (encode B xs) 0 0 (b + 1) /\
  (a <= length xs -> index C (encode B xs) 4 a b = index C (encode B xs) 0 a (length xs)) /\
  index C (encode B xs) 5 a b = index C (encode B xs) 0 0 (length xs) /\
  index C (encode B xs) 6 a b = index C (encode B xs) 0 a (a + 1).
Proof.
  cbn [index]. fold B. repeat split.
  - intros Ha. f_equal. rewrite length_encode. lia.
  - rewrite bit_slice_encode by lia. rewrite Nat.sub_0_r. cbn [skipn].
    rewrite firstn_all. reflexivity.
  - f_equal. lia.
Qed.

Theorem index_from_out xs a b :
  length xs < a -> index C (encode B xs) 4 a b = None.
Proof.
  intros H. cbn [index]. fold B. apply bit_slice_oob. left. rewrite length_encode.
  pose proof Bpos. nia.
Qed.

Lemma skipn_skipn' {A} (l : list A) a c : skipn c (skipn a l) = skipn (a + c) l.
Proof.
  revert a. induction l as [|x l IH]; intros a.
  - now rewrite !skipn_nil.
  - destruct a; [reflexivity|]. cbn [skipn plus]. apply IH.
Qed.

(* re-slicing collapses: slicing a slice is slicing the parent *)
Theorem index_compose xs a b c d :
  a <= b -> b <= length xs -> c <= d -> d <= b - a ->
  (do t <- index C (encode B xs) 0 a b; index C t 0 c d) =
  index C (encode B xs) 0 (a + c) (a + d).
Proof.
  intros Hab Hb Hcd Hd.
  rewrite index_range_in by assumption. cbn [bind].
  rewrite index_range_in.
  - rewrite index_range_in by lia. f_equal. f_equal.
    replace (a + d - (a + c)) with (d - c) by lia.
    rewrite skipn_firstn_comm, firstn_firstn, skipn_skipn'.
    f_equal. lia.
  - assumption.
  - rewrite firstn_length, skipn_length. lia.
Qed.

(* ---------------- symbol access ---------------- *)
Lemma to_u8_chunk x : to_u8 (to_bits B x) = Some (x mod 2 ^ N.of_nat B)%N.
Proof.
  unfold to_u8. rewrite to_bits_length.
  assert (E1 : (1 <=? B) = true) by (apply Nat.leb_le; apply Bpos).
  assert (E2 : (B <=? 8) = true) by (apply Nat.leb_le; apply Ble8).
  rewrite E1, E2. cbn [andb assert bind ret]. now rewrite of_bits_to_bits.
Qed.

Lemma firstn_1_skipn {A} (l : list A) i d :
  i < length l -> firstn 1 (skipn i l) = [nth i l d].
Proof.
  revert i. induction l as [|x l IH]; intros i H; simpl in H; [lia|].
  destruct i; simpl; [reflexivity|]. apply IH. lia.
Qed.

Theorem nth_sym_in xs i :
  Forall smallc xs -> i < length xs ->
  nth_sym C (encode B xs) i = un_bits C (nth i xs 0%N).
Proof.
  intros Hs Hi. unfold nth_sym.
  destruct (index_forms xs i 0) as [_ [_ [_ [_ [_ E]]]]]. rewrite E.
  rewrite index_range_in by lia. cbn [bind].
  replace (i + 1 - i) with 1 by lia.
  rewrite (firstn_1_skipn xs i 0%N) by assumption.
  unfold encode. cbn [map concat]. rewrite app_nil_r.
  unfold decode_chunk. fold B. rewrite to_u8_chunk. cbn [bind].
  rewrite N.mod_small; [reflexivity|].
  rewrite Forall_forall in Hs. apply Hs. apply nth_In. assumption.
Qed.

Theorem nth_sym_out xs i : length xs <= i -> nth_sym C (encode B xs) i = None.
Proof.
  intros Hi. unfold nth_sym.
  destruct (index_forms xs i 0) as [_ [_ [_ [_ [_ E]]]]]. rewrite E.
  rewrite index_range_out by lia. reflexivity.
Qed.

Theorem get_sym_spec xs i :
  Forall smallc xs ->
  get_sym C (encode B xs) i =
    if length xs <=? i then Some None
    else option_map Some (un_bits C (nth i xs 0%N)).
Proof.
  intros Hs. unfold get_sym. rewrite slen_encode.
  destruct (length xs <=? i) eqn:E; [reflexivity|].
  apply Nat.leb_gt in E. rewrite nth_sym_in by assumption.
  destruct (un_bits C (nth i xs 0%N)); reflexivity.
Qed.

(* a list of canonical codes decodes to itself *)
Definition canonl (xs : list N) : Prop := Forall (canon C) xs.

Lemma canon_small x : canon C x -> smallc x.
Proof.
  (* a canonical code is what try_from_bits would return for itself only if it fits; we get the
     width bound from codec_ok's clause on try_bits through un_bits = Some x ... not available in
     general, so smallness is carried as a separate hypothesis where needed *)
Abort.

Lemma skipn_cons_nth {A} (l : list A) i d :
  i < length l -> skipn i l = nth i l d :: skipn (S i) l.
Proof.
  revert i. induction l as [|x l IH]; intros i H; simpl in H; [lia|].
  destruct i; [reflexivity|]. cbn [skipn nth]. apply IH. lia.
Qed.

Lemma iter_from_spec xs i fuel :
  Forall smallc xs -> canonl xs -> length xs - i <= fuel ->
  iter_from C (encode B xs) i fuel = Some (skipn i xs).
Proof.
  intros Hs Hc. revert i. induction fuel as [|f IH]; intros i Hf.
  - cbn [iter_from]. rewrite skipn_all2 by lia. reflexivity.
  - cbn [iter_from]. rewrite slen_encode.
    destruct (length xs <=? i) eqn:E.
    + apply Nat.leb_le in E. rewrite skipn_all2 by lia. reflexivity.
    + apply Nat.leb_gt in E. rewrite nth_sym_in by assumption.
      assert (Hcan : un_bits C (nth i xs 0%N) = Some (nth i xs 0%N)).
      { unfold canonl in Hc. rewrite Forall_forall in Hc. apply Hc. apply nth_In. assumption. }
      rewrite Hcan. cbn [bind]. rewrite IH by lia. cbn [bind]. unfold ret.
      replace (i + 1) with (S i) by lia.
      rewrite (skipn_cons_nth xs i 0%N) by assumption. reflexivity.
Qed.

(* forward iteration yields the symbols in order, each exactly once *)
Theorem iter_spec xs : Forall smallc xs -> canonl xs -> iter C (encode B xs) = Some xs.
Proof.
  intros Hs Hc. unfold iter. rewrite slen_encode.
  rewrite iter_from_spec by (auto; lia). reflexivity.
Qed.

Lemma rev_iter_from_spec xs i :
  Forall smallc xs -> canonl xs -> i <= length xs ->
  rev_iter_from C (encode B xs) i = Some (rev (firstn i xs)).
Proof.
  intros Hs Hc. induction i as [|i IH]; intros Hi.
  - reflexivity.
  - cbn [rev_iter_from]. rewrite nth_sym_in by (auto; lia).
    assert (Hcan : un_bits C (nth i xs 0%N) = Some (nth i xs 0%N)).
    { unfold canonl in Hc. rewrite Forall_forall in Hc. apply Hc. apply nth_In. lia. }
    rewrite Hcan. cbn [bind]. rewrite IH by lia. cbn [bind]. unfold ret.
    assert (E : firstn (S i) xs = firstn i xs ++ [nth i xs 0%N]).
    { clear - Hi. revert i Hi. induction xs as [|x xs IHx]; intros i Hi; simpl in Hi; [lia|].
      destruct i; [reflexivity|]. cbn [firstn nth app]. f_equal. apply IHx. lia. }
    rewrite E, rev_app_distr. reflexivity.
Qed.

(* reverse iteration yields them in opposite order *)
Theorem rev_iter_spec xs :
  Forall smallc xs -> canonl xs -> rev_iter C (encode B xs) = Some (rev xs).
Proof.
  intros Hs Hc. unfold rev_iter. rewrite slen_encode.
  rewrite rev_iter_from_spec by (auto; lia). now rewrite firstn_all.
Qed.

Theorem chain_spec xs ys :
  Forall smallc xs -> canonl xs -> Forall smallc ys -> canonl ys ->
  chain C (encode B xs) (encode B ys) = Some (xs ++ ys).
Proof.
  intros. unfold chain. rewrite !iter_spec by assumption. reflexivity.
Qed.

(* ---------------- edits refine list edits (C06) ---------------- *)
Theorem push_spec xs x : push C (encode B xs) x = encode B (xs ++ [x]).
Proof.
  unfold push. fold B. rewrite encode_app. unfold encode at 3. cbn [map concat].
  now rewrite app_nil_r.
Qed.

Theorem extend_spec ys xs : extend C (encode B xs) ys = encode B (xs ++ ys).
Proof.
  unfold extend. revert xs. induction ys as [|y ys IH]; intros xs; cbn [fold_left].
  - now rewrite app_nil_r.
  - rewrite push_spec, IH, <- app_assoc. reflexivity.
Qed.

Theorem collect_spec xs : collect_syms C xs = encode B xs.
Proof. unfold collect_syms. change (@nil bool) with (encode B []). apply (extend_spec xs []). Qed.

Theorem append_spec xs ys : append (encode B xs) (encode B ys) = encode B (xs ++ ys).
Proof. unfold append. now rewrite encode_app. Qed.

Theorem prepend_spec xs ys : prepend (encode B xs) (encode B ys) = encode B (ys ++ xs).
Proof. unfold prepend. now rewrite encode_app. Qed.

Theorem insert_spec xs i ys :
  insert C (encode B xs) i (encode B ys) =
    if i <=? length xs then Some (encode B (firstn i xs ++ ys ++ skipn i xs)) else None.
Proof.
  unfold insert. rewrite slen_encode. destruct (i <=? length xs); [|reflexivity].
  cbn [assert bind]. unfold ret. apply f_equal. fold B.
  replace (i * B) with (B * i) by lia.
  rewrite encode_firstn, encode_skipn, !encode_app. reflexivity.
Qed.

Theorem truncate_spec xs n : truncate C (encode B xs) n = encode B (firstn n xs).
Proof. unfold truncate. fold B. replace (n * B) with (B * n) by lia. apply encode_firstn. Qed.

(* remove of an in-bounds half-open range st..en (all RangeBounds forms reduce to one) *)
Theorem remove_spec xs form a b :
  let (st, en) := range_bounds C (encode B xs) form a b in
  st <= en -> en <= length xs ->
  remove C dbg (encode B xs) form a b = Some (encode B (firstn st xs ++ skipn en xs)).
Proof.
  unfold remove. destruct (range_bounds C (encode B xs) form a b) as [st en] eqn:E.
  intros H1 H2. rewrite slen_encode.
  assert (E1 : (st <=? en) = true) by (apply Nat.leb_le; assumption).
  assert (E2 : (en <=? length xs) = true) by (apply Nat.leb_le; assumption).
  rewrite E1, E2, orb_true_r. cbn [assert bind].
  fold B.
  assert (E3 : (en * B <? st * B) = false) by (apply Nat.ltb_ge; nia).
  rewrite E3.
  assert (E4 : (en * B <=? length (encode B xs)) = true).
  { apply Nat.leb_le. rewrite length_encode. nia. }
  rewrite E4. cbn [assert bind]. unfold ret. apply f_equal.
  replace (st * B) with (B * st) by lia. replace (en * B) with (B * en) by lia.
  rewrite encode_firstn, encode_skipn, encode_app. reflexivity.
Qed.

Theorem range_bounds_spec xs form a b :
  range_bounds C (encode B xs) form a b =
    match form with
    | 0%N => (a, b) | 1%N => (a, b + 1) | 2%N => (0, b) | 3%N => (0, b + 1)
    | 4%N => (a, length xs) | 5%N => (0, length xs) | _ => (a + 1, b + 1)
    end.
Proof. unfold range_bounds. rewrite slen_encode. reflexivity. Qed.

(* ---------------- reverse / complement (C07) ---------------- *)
Theorem rev_spec xs : seq_rev C (encode B xs) = encode B (rev xs).
Proof. unfold seq_rev. fold B. apply encode_rev. apply Bpos. Qed.

Theorem rev_involutive_seq xs : seq_rev C (seq_rev C (encode B xs)) = encode B xs.
Proof. now rewrite !rev_spec, rev_involutive. Qed.

Lemma mapM_map {X Y} (f : X -> res Y) (g : X -> Y) l :
  (forall x, In x l -> f x = Some (g x)) -> mapM f l = Some (map g l).
Proof.
  induction l as [|x l IH]; intros H; cbn [mapM map]; [reflexivity|].
  rewrite H by (left; reflexivity). cbn [bind]. rewrite IH; [reflexivity|].
  intros y Hy. apply H. right. exact Hy.
Qed.

Lemma mapM_premap {X Y Z} (f : Y -> res Z) (h : X -> Y) l :
  mapM f (map h l) = mapM (fun x => f (h x)) l.
Proof. induction l as [|x l IH]; cbn [map mapM]; [reflexivity|]. now rewrite IH. Qed.

(* position-wise symbol map: the shape shared by comp, mask, unmask *)
Theorem map_syms_spec (f : N -> res N) (g : N -> N) xs :
  Forall smallc xs -> canonl xs ->
  (forall x, In x xs -> f x = Some (g x)) ->
  map_syms C f (encode B xs) = Some (encode B (map g xs)).
Proof.
  intros Hs Hc Hf. unfold map_syms. rewrite slen_encode. fold B.
  replace (length xs * B) with (B * length xs) by lia.
  rewrite <- length_encode, firstn_all, skipn_all.
  unfold encode at 1. rewrite chunks_concat; [|apply Bpos|apply uniform_encode].
  rewrite mapM_premap.
  rewrite (mapM_map _ (fun x => to_bits B (g x))).
  - cbn [bind]. unfold ret. rewrite app_nil_r. unfold encode. now rewrite map_map.
  - intros x Hx. unfold decode_chunk. fold B. rewrite to_u8_chunk. cbn [bind].
    rewrite N.mod_small by (rewrite Forall_forall in Hs; apply Hs; exact Hx).
    unfold canonl in Hc. rewrite Forall_forall in Hc. rewrite (Hc x Hx). cbn [bind].
    rewrite (Hf x Hx). reflexivity.
Qed.

(* in general, mapM over an arbitrary list with mapM_map needs the function on list elements *)
End Proofs.
