(* Translate.v — the standard translation tables against NCBI translation table 1 (C13, C14).
   Finite domains, enumerated completely in the kernel on the regenerated dumps:
   64 DNA codons, 16^3 IUPAC codons, 21 amino symbols. *)
From Coq Require Import List Arith NArith Lia Bool.
From BioSeq Require Import Bits Codec Tables Spec Derive C05Check.
Import ListNotations.
Local Open Scope N_scope.

Definition codes16 : list N := map N.of_nat (seq 0 16).
Definition codes4 : list N := [0; 1; 2; 3].

Lemma codes16_in x : x < 16 <-> In x codes16.
Proof.
  unfold codes16. rewrite in_map_iff. split.
  - intro H. exists (N.to_nat x). split; [apply N2Nat.id|]. apply in_seq. lia.
  - intros [n [<- Hn]]. apply in_seq in Hn. lia.
Qed.

(* ---------------- C13: DNA codon -> amino acid ---------------- *)
(* index of a DNA codon in the dump: c0 + 4 c1 + 16 c2 (little-endian 2-bit symbols) *)
Definition dna_index (c0 c1 c2 : N) : nat := N.to_nat (c0 + 4 * c1 + 16 * c2).

Definition std_dna_spec (amino : codec) (tab : list (option N)) : Prop :=
  forall c0 c1 c2, c0 < 4 -> c1 < 4 -> c2 < 4 ->
    exists a, nth (dna_index c0 c1 c2) tab None = Some a /\
              to_char amino a = Some (ncbi1 c0 c1 c2).

Definition std_dna_check (amino : codec) (tab : list (option N)) : bool :=
  forallb (fun c0 => forallb (fun c1 => forallb (fun c2 =>
    match nth (dna_index c0 c1 c2) tab None with
    | Some a => opt_eqb (to_char amino a) (Some (ncbi1 c0 c1 c2))
    | None => false
    end) codes4) codes4) codes4.

Lemma codes4_in x : x < 4 -> In x codes4.
Proof.
  intros H. assert (E : x = 0 \/ x = 1 \/ x = 2 \/ x = 3) by lia.
  unfold codes4. destruct E as [E|[E|[E|E]]]; subst; simpl; auto.
Qed.

Theorem std_dna_check_sound amino tab : std_dna_check amino tab = true -> std_dna_spec amino tab.
Proof.
  unfold std_dna_check, std_dna_spec. intros H c0 c1 c2 H0 H1 H2.
  rewrite forallb_forall in H. specialize (H c0 (codes4_in c0 H0)).
  rewrite forallb_forall in H. specialize (H c1 (codes4_in c1 H1)).
  rewrite forallb_forall in H. specialize (H c2 (codes4_in c2 H2)).
  destruct (nth (dna_index c0 c1 c2) tab None) as [a|]; [|discriminate].
  exists a. split; [reflexivity|]. apply opt_eqb_spec. exact H.
Qed.

Definition std_dna_witness (amino : codec) (tab : list (option N)) : option (N * N * N) :=
  find (fun c => let '(c0, c1, c2) := c in
          negb match nth (dna_index c0 c1 c2) tab None with
               | Some a => opt_eqb (to_char amino a) (Some (ncbi1 c0 c1 c2))
               | None => false
               end)
       (flat_map (fun c0 => flat_map (fun c1 => map (fun c2 => (c0, c1, c2)) codes4) codes4) codes4).

(* ---------------- C14: ambiguous codons ---------------- *)
(* the concrete DNA codons matching an IUPAC codon (codes as nucleotide sets, bit 3 = A .. bit 0 = T) *)
Definition expand (c0 c1 c2 : N) : list (N * N * N) :=
  flat_map (fun d0 => flat_map (fun d1 => map (fun d2 => (d0, d1, d2)) (code_set c2)) (code_set c1))
           (code_set c0).

Definition iupac_index (c0 c1 c2 : N) : nat := N.to_nat (c0 + 16 * c1 + 256 * c2).

Definition letter_of (amino : codec) (a : N) : N :=
  match to_char amino a with Some c => c | None => 0 end.

(* all concrete codons of the expansion code for the amino acid with letter L *)
Definition all_code_for (L : N) (ds : list (N * N * N)) : bool :=
  forallb (fun d => let '(d0, d1, d2) := d in ncbi1 d0 d1 d2 =? L) ds.

Definition gap_free (c0 c1 c2 : N) : bool := negb (c0 =? 0) && negb (c1 =? 0) && negb (c2 =? 0).

(* sound and complete on gap-free codons; with gaps: no panic, and sound *)
Definition codon_ok (amino : codec) (r : tres) (c0 c1 c2 : N) : bool :=
  let ds := expand c0 c1 c2 in
  if gap_free c0 c1 c2 then
    match ds with
    | (d0, d1, d2) :: _ =>
        let L := ncbi1 d0 d1 d2 in
        if all_code_for L ds
        then match r with TOk a => letter_of amino a =? L | _ => false end
        else match r with TAmbiguous => true | _ => false end
    | [] => false
    end
  else match r with
       | TOk a => all_code_for (letter_of amino a) ds
       | TPanic => false
       | _ => true      (* a codon with a gap may be called ambiguous or refused: only soundness *)
       end.

Definition std_iupac_check (amino : codec) (tab : list tres) : bool :=
  forallb (fun c0 => forallb (fun c1 => forallb (fun c2 =>
    codon_ok amino (nth (iupac_index c0 c1 c2) tab TPanic) c0 c1 c2) codes16) codes16) codes16.

Definition std_iupac_spec (amino : codec) (tab : list tres) : Prop :=
  forall c0 c1 c2, c0 < 16 -> c1 < 16 -> c2 < 16 ->
    let r := nth (iupac_index c0 c1 c2) tab TPanic in
    let ds := expand c0 c1 c2 in
    (* every 3-symbol codon, gaps included: never a panic; without gaps an amino acid or "ambiguous" *)
    (r <> TPanic /\ (gap_free c0 c1 c2 = true -> r = TAmbiguous \/ exists a, r = TOk a)) /\
    (* sound: an answer X means every matching DNA codon codes for X *)
    (forall a, r = TOk a -> all_code_for (letter_of amino a) ds = true) /\
    (* complete on gap-free codons: if every matching DNA codon codes for the letter L, the answer
       is the amino acid with letter L (so ambiguity is reported exactly otherwise) *)
    (gap_free c0 c1 c2 = true -> ds <> [] /\
       forall L, all_code_for L ds = true -> exists a, r = TOk a /\ letter_of amino a = L).

Lemma all_code_for_head L d0 d1 d2 t :
  all_code_for L ((d0, d1, d2) :: t) = true -> L = ncbi1 d0 d1 d2.
Proof.
  cbn [all_code_for forallb]. intros H. apply andb_prop in H. destruct H as [H _].
  apply N.eqb_eq in H. congruence.
Qed.

Theorem std_iupac_check_sound amino tab :
  std_iupac_check amino tab = true -> std_iupac_spec amino tab.
Proof.
  unfold std_iupac_check, std_iupac_spec. intros H c0 c1 c2 H0 H1 H2.
  rewrite forallb_forall in H. specialize (H c0 (proj1 (codes16_in c0) H0)).
  rewrite forallb_forall in H. specialize (H c1 (proj1 (codes16_in c1) H1)).
  rewrite forallb_forall in H. specialize (H c2 (proj1 (codes16_in c2) H2)).
  unfold codon_ok in H. cbv zeta.
  destruct (gap_free c0 c1 c2) eqn:G.
  - destruct (expand c0 c1 c2) as [|[[d0 d1] d2] t] eqn:Eds; [discriminate|].
    destruct (all_code_for (ncbi1 d0 d1 d2) ((d0, d1, d2) :: t)) eqn:A.
    + destruct (nth (iupac_index c0 c1 c2) tab TPanic) as [a| | | |]; try discriminate.
      apply N.eqb_eq in H. split; [split; [discriminate|intros _; right; exists a; reflexivity]|]. split.
      * intros a' E. inversion E; subst. rewrite H. exact A.
      * intros _. split; [discriminate|]. intros L HL. apply all_code_for_head in HL. subst L.
        exists a. split; [reflexivity | exact H].
    + destruct (nth (iupac_index c0 c1 c2) tab TPanic) as [a| | | |]; try discriminate.
      split; [split; [discriminate|intros _; left; reflexivity]|]. split; [discriminate|].
      intros _. split; [discriminate|]. intros L HL. pose proof (all_code_for_head _ _ _ _ _ HL). subst L.
      congruence.
  - destruct (nth (iupac_index c0 c1 c2) tab TPanic) as [a| | | |]; try discriminate.
    + split; [split; [discriminate|discriminate]|]. split; [|discriminate].
      intros a' E. inversion E; subst. exact H.
    + split; [split; discriminate|]. split; discriminate.
    + split; [split; discriminate|]. split; discriminate.
    + split; [split; discriminate|]. split; discriminate.
Qed.

Definition std_iupac_witness (amino : codec) (tab : list tres) : option (N * N * N) :=
  find (fun c => let '(c0, c1, c2) := c in
          negb (codon_ok amino (nth (iupac_index c0 c1 c2) tab TPanic) c0 c1 c2))
       (flat_map (fun c0 => flat_map (fun c1 => map (fun c2 => (c0, c1, c2)) codes16) codes16) codes16).

(* ---------------- C14: reverse translation ---------------- *)
Definition all_dna_codons : list (N * N * N) :=
  flat_map (fun d0 => flat_map (fun d1 => map (fun d2 => (d0, d1, d2)) codes4) codes4) codes4.

(* the DNA codons coding for the amino acid with letter L *)
Definition preimage (L : N) : list (N * N * N) :=
  filter (fun d => let '(d0, d1, d2) := d in ncbi1 d0 d1 d2 =? L) all_dna_codons.

Definition codon_eqb (a b : N * N * N) : bool :=
  let '(a0, a1, a2) := a in let '(b0, b1, b2) := b in (a0 =? b0) && (a1 =? b1) && (a2 =? b2).
Definition subset (a b : list (N * N * N)) : bool :=
  forallb (fun x => existsb (codon_eqb x) b) a.
Definition same_set (a b : list (N * N * N)) : bool := subset a b && subset b a.

(* the only IUPAC codon that could match all of a set: the position-wise union *)
Definition union_codon (ds : list (N * N * N)) : N * N * N :=
  fold_left (fun acc d => let '(p0, p1, p2) := acc in let '(d0, d1, d2) := d in
               (N.lor p0 (base_bit d0), N.lor p1 (base_bit d1), N.lor p2 (base_bit d2)))
            ds (0, 0, 0).

(* reverse translation is exact: an IUPAC codon is returned exactly when one such codon matches
   all and only the DNA codons coding for the amino acid; ambiguity otherwise *)
Definition rev_ok (amino : codec) (a : N) (r : cres) : bool :=
  let pre := preimage (letter_of amino a) in
  let '(u0, u1, u2) := union_codon pre in
  if same_set (expand u0 u1 u2) pre && negb (match pre with [] => true | _ => false end)
  then match r with COk [p0; p1; p2] => (p0 =? u0) && (p1 =? u1) && (p2 =? u2) | _ => false end
  else match r with CAmbiguous => true | _ => false end.

Definition std_rev_check (amino : codec) (tab : list (N * cres)) : bool :=
  nlist_eqb (map fst tab) (c_items amino) &&
  forallb (fun p => rev_ok amino (fst p) (snd p)) tab.

Definition std_rev_spec (amino : codec) (tab : list (N * cres)) : Prop :=
  map fst tab = c_items amino /\
  forall a r, In (a, r) tab ->
    let pre := preimage (letter_of amino a) in
    (forall p0 p1 p2, r = COk [p0; p1; p2] -> same_set (expand p0 p1 p2) pre = true) /\
    (forall p0 p1 p2, pre <> [] -> same_set (expand p0 p1 p2) pre = true ->
                      (p0, p1, p2) = union_codon pre -> r = COk [p0; p1; p2]) /\
    (r = CAmbiguous \/ exists p0 p1 p2, r = COk [p0; p1; p2]).

Theorem std_rev_check_sound amino tab : std_rev_check amino tab = true -> std_rev_spec amino tab.
Proof.
  unfold std_rev_check, std_rev_spec. intros H. apply andb_prop in H. destruct H as [H1 H2].
  split; [apply nlist_eqb_eq; exact H1|].
  intros a r Hin. rewrite forallb_forall in H2. specialize (H2 (a, r) Hin). cbn [fst snd] in H2.
  unfold rev_ok in H2. cbv zeta.
  destruct (union_codon (preimage (letter_of amino a))) as [[u0 u1] u2] eqn:U.
  destruct (same_set (expand u0 u1 u2) (preimage (letter_of amino a)) &&
            negb match preimage (letter_of amino a) with [] => true | _ :: _ => false end) eqn:S.
  - apply andb_prop in S. destruct S as [S1 S2].
    destruct r as [[|p0 [|p1 [|p2 [|? ?]]]]| | |]; try discriminate.
    apply andb_prop in H2. destruct H2 as [H2 E2]. apply andb_prop in H2. destruct H2 as [E0 E1].
    apply N.eqb_eq in E0. apply N.eqb_eq in E1. apply N.eqb_eq in E2. subst.
    split; [|split].
    + intros q0 q1 q2 E. inversion E; subst. exact S1.
    + intros q0 q1 q2 _ _ E. inversion E; subst. reflexivity.
    + right. exists u0, u1, u2. reflexivity.
  - destruct r as [l| | |]; try discriminate.
    split; [|split].
    + intros q0 q1 q2 E. discriminate.
    + intros q0 q1 q2 Hne Hs E. inversion E; subst.
      rewrite Hs in S. cbn [andb] in S.
      destruct (preimage (letter_of amino a)); [congruence|discriminate].
    + left. reflexivity.
Qed.

(* ---------------- the model of Standard::to_amino on an encoded codon ---------------- *)
From BioSeq Require Import SeqModel SeqProofs.

Section ToAmino.
Variable C : codec.
Hypothesis OK : codec_ok C.
Hypothesis B2 : c_bits C = 2%nat.
Variable amino : codec.

(* a three-base codon translates to the table entry of its packed value, wherever it sits: the
   model reads only the six bits of the slice *)
Theorem to_amino_codon c0 c1 c2 :
  c0 < 4 -> c1 < 4 -> c2 < 4 ->
  to_amino C amino (encode (c_bits C) [c0; c1; c2]) = un_bits amino (c0 + 4 * c1 + 16 * c2).
Proof.
  intros H0 H1 H2. unfold to_amino. rewrite (slen_encode C OK). cbn [length Nat.eqb assert bind].
  unfold to_u8. rewrite encode_length, B2. cbn [length Nat.mul Nat.add Nat.leb andb assert bind].
  unfold ret. cbn [bind]. f_equal.
  rewrite of_bits_encode.
  - cbn [pack]. change (2 ^ N.of_nat 2) with 4. lia.
  - repeat constructor; unfold small; change (2 ^ N.of_nat 2) with 4; assumption.
Qed.

(* codons of any other length are refused (the assert! panics) *)
Theorem to_amino_wrong_length xs :
  length xs <> 3%nat -> to_amino C amino (encode (c_bits C) xs) = None.
Proof.
  intros H. unfold to_amino. rewrite (slen_encode C OK).
  apply Nat.eqb_neq in H. rewrite H. reflexivity.
Qed.

End ToAmino.

(* the dump of STANDARD.to_amino over the 64 codons is the model's table read *)
Definition std_dump_is_model (amino : codec) (tab : list (option N)) : bool :=
  forallb (fun i => opt_eqb (nth (N.to_nat i) tab None) (un_bits amino i)) (map N.of_nat (seq 0 64)).
