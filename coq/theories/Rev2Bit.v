(* Rev2Bit.v — the 2-bit k-mer reversal (swap_bytes, REV_2BIT table per byte, shift right)
   reverses the K symbols.  The only bit-twiddling obligation of the code base: a 256-case
   kernel enumeration for the table, the rest by list algebra on uniform chunks. *)
From Coq Require Import List Arith NArith Lia Bool.
From BioSeq Require Import Bits Codec SeqModel SeqProofs SeqProofs2 KmerModel KmerProofs.
Import ListNotations.

(* ---------------- bytes <-> bits ---------------- *)
Lemma to_bits_le_bytes n x :
  to_bits (8 * n) x = concat (map (to_bits 8) (le_bytes n x)).
Proof.
  revert x. induction n as [|n IH]; intros x; [reflexivity|].
  replace (8 * S n) with (8 + 8 * n) by lia. rewrite to_bits_add.
  cbn [le_bytes map concat]. f_equal.
  - change 256%N with (2 ^ N.of_nat 8)%N. symmetry. apply to_bits_mod.
  - change (2 ^ N.of_nat 8)%N with 256%N. apply IH.
Qed.

Lemma of_le_bytes_bits l :
  Forall (fun b => (b < 256)%N) l -> of_le_bytes l = of_bits (concat (map (to_bits 8) l)).
Proof.
  induction 1 as [|b l Hb Hl IH]; [reflexivity|].
  cbn [of_le_bytes map concat]. rewrite of_bits_app, to_bits_length, IH.
  rewrite to_bits_small by exact Hb. reflexivity.
Qed.

Lemma le_bytes_lt n x : Forall (fun b => (b < 256)%N) (le_bytes n x).
Proof.
  revert x. induction n as [|n IH]; intros x; cbn [le_bytes]; constructor.
  - apply N.mod_lt. lia.
  - apply IH.
Qed.

(* ---------------- the table: 256 cases in the kernel ---------------- *)
Definition rev2bit_okb (b : N) : bool :=
  N.ltb (rev2bit_byte b) 256 &&
  bits_eqb (to_bits 8 (rev2bit_byte b)) (concat (rev (chunks 2 (to_bits 8 b)))).

Lemma rev2bit_table_all : forallb rev2bit_okb bytes256 = true.
Proof. vm_compute. reflexivity. Qed.

Lemma rev2bit_table b : (b < 256)%N ->
  (rev2bit_byte b < 256)%N /\
  to_bits 8 (rev2bit_byte b) = concat (rev (chunks 2 (to_bits 8 b))).
Proof.
  intros Hb. pose proof rev2bit_table_all as H. rewrite forallb_forall in H.
  specialize (H b (proj1 (bytes256_in b) Hb)). unfold rev2bit_okb in H.
  apply andb_prop in H. destruct H as [H1 H2]. split.
  - apply N.ltb_lt. exact H1.
  - apply bits_eqb_eq. exact H2.
Qed.

(* ---------------- list algebra ---------------- *)
Lemma concat_concat {A} (ll : list (list (list A))) :
  concat (concat ll) = concat (map (@concat A) ll).
Proof.
  induction ll as [|l ll IH]; [reflexivity|]. cbn [concat map]. now rewrite concat_app, IH.
Qed.

Lemma uniform_concat {A} k (ll : list (list (list A))) :
  Forall (uniform k) ll -> uniform k (concat ll).
Proof.
  induction 1 as [|l ll Hl _ IH]; [constructor|]. cbn [concat]. apply uniform_app; assumption.
Qed.

Lemma chunks2_byte b : uniform 2 (chunks 2 (to_bits 8 b)) /\ concat (chunks 2 (to_bits 8 b)) = to_bits 8 b.
Proof.
  assert (H : length (to_bits 8 b) = 2 * 4) by apply to_bits_length.
  destruct (@chunks_spec bool 2 4 (to_bits 8 b) (Nat.lt_0_succ 1) H) as [E [U _]]. split; assumption.
Qed.

Lemma concat_repeat_pair n : concat (repeat [false; false] n) = repeat false (2 * n).
Proof.
  induction n as [|n IH]; [reflexivity|]. cbn [repeat concat]. rewrite IH.
  replace (2 * S n) with (S (S (2 * n))) by lia. reflexivity.
Qed.

Lemma rev_repeat' {A} (x : A) n : rev (repeat x n) = repeat x n.
Proof.
  induction n as [|n IH]; [reflexivity|]. cbn [repeat rev]. rewrite IH.
  clear IH. induction n as [|n IH]; [reflexivity|]. cbn [repeat app]. now rewrite IH.
Qed.

(* swap_bytes + per-byte table = reverse the thirty-two 2-bit blocks of the word *)
Lemma rev_blocks_word x :
  of_le_bytes (map rev2bit_byte (rev (le_bytes 8 x))) =
  of_bits (concat (rev (chunks 2 (to_bits 64 x)))).
Proof.
  set (bytes := le_bytes 8 x).
  assert (Hb : Forall (fun b => (b < 256)%N) bytes) by apply le_bytes_lt.
  rewrite of_le_bytes_bits.
  2:{ rewrite Forall_forall. intros y Hy. apply in_map_iff in Hy. destruct Hy as [b [<- Hin]].
      apply rev2bit_table. rewrite Forall_forall in Hb. apply Hb. apply in_rev. exact Hin. }
  f_equal.
  rewrite map_map.
  rewrite (map_ext_in _ (fun b => concat (rev (chunks 2 (to_bits 8 b))))).
  2:{ intros b Hin. apply rev2bit_table. rewrite Forall_forall in Hb. apply Hb. apply in_rev. exact Hin. }
  change 64 with (8 * 8). rewrite to_bits_le_bytes. fold bytes.
  (* the chunks of the word are the chunks of its bytes *)
  assert (CH : chunks 2 (concat (map (to_bits 8) bytes)) =
               concat (map (fun b => chunks 2 (to_bits 8 b)) bytes)).
  { rewrite (map_ext _ (fun b => concat (chunks 2 (to_bits 8 b)))) by (intros; symmetry; apply chunks2_byte).
    rewrite <- (map_map (fun b => chunks 2 (to_bits 8 b)) (@concat bool)).
    rewrite <- concat_concat. apply chunks_concat; [lia|].
    apply uniform_concat. rewrite Forall_forall. intros l Hl. apply in_map_iff in Hl.
    destruct Hl as [b [<- _]]. apply chunks2_byte. }
  rewrite CH, rev_concat, concat_concat, map_map, <- map_rev, map_map. reflexivity.
Qed.

Section Rev2.
Variable C : codec.
Hypothesis OK : codec_ok C.
Variable K : nat.
Hypothesis Kpos : 1 <= K.
Hypothesis B2 : c_bits C = 2.
Hypothesis Fits : K * 2 <= 64.

(* Kmer::rev for a 2-bit codec on usize storage reverses the K symbols *)
Theorem rev_blocks_2_spec xs :
  length xs = K -> rev_blocks_2 C K 64 (kval C xs) = kval C (rev xs).
Proof.
  intros HK. unfold rev_blocks_2, kbits. change (64 / 8) with 8.
  rewrite rev_blocks_word.
  assert (F : K * c_bits C <= 64) by (rewrite B2; exact Fits).
  pose proof (to_bitarray_kval C OK K 64 Kpos F xs HK) as TB. unfold to_bitarray in TB.
  rewrite TB, B2.
  replace (64 - K * 2) with (2 * (32 - K)) by lia.
  rewrite <- concat_repeat_pair.
  unfold encode. rewrite <- concat_app.
  rewrite chunks_concat; [|lia|].
  2:{ apply uniform_app; [apply uniform_encode|].
      clear. induction (32 - K) as [|n IH]; cbn [repeat]; constructor; [reflexivity|exact IH]. }
  rewrite rev_app_distr, rev_repeat', concat_app, concat_repeat_pair.
  rewrite of_bits_app, of_bits_repeat_false, repeat_length, N.add_0_l.
  rewrite N.shiftr_div_pow2.
  replace (N.of_nat (2 * (32 - K))) with (N.of_nat (2 * (32 - K))) by reflexivity.
  rewrite N.mul_comm, N.div_mul by (apply N.pow_nonzero; lia).
  unfold kval, encode. rewrite B2, map_rev. reflexivity.
Qed.

Theorem krev_2bit_spec xs :
  length xs = K -> krev C K 64 (kval C xs) = Some (kval C (rev xs)).
Proof.
  intros HK. unfold krev. rewrite B2. cbn [Nat.eqb]. unfold ret. f_equal.
  apply rev_blocks_2_spec. exact HK.
Qed.

End Rev2.
