(* History.v — C06 for EVERY finite history of edits: the model, run on [encode xs] through any
   sequence of in-bounds edits whose argument slices are arbitrary sequences [encode ys], ends in
   [encode] of the list obtained by the same edits on the plain list of symbols (refinement by
   induction over the history). Also: conversion between codecs is map (C19), and translation by
   windows of three is the table read of each triplet (C13). *)
From Coq Require Import List Arith NArith Lia Bool.
From BioSeq Require Import Bits Codec SeqModel SeqProofs SeqProofs2 IterProofs Translate.
Import ListNotations.

Inductive eop :=
  | EPush (x : N)
  | EExtend (ys : list N)
  | EAppend (ys : list N)
  | EPrepend (ys : list N)
  | EInsert (i : nat) (ys : list N)
  | ERemove (form : N) (a b : nat)
  | ETruncate (n : nat)
  | EClear.

(* the edit on a plain list of symbols; None = arguments out of bounds *)
Definition lbounds (n : nat) (form : N) (a b : nat) : nat * nat :=
  match form with
  | 0%N => (a, b) | 1%N => (a, b + 1) | 2%N => (0, b) | 3%N => (0, b + 1)
  | 4%N => (a, n) | 5%N => (0, n) | _ => (a + 1, b + 1)
  end.

Definition lstep (xs : list N) (o : eop) : option (list N) :=
  match o with
  | EPush x => Some (xs ++ [x])
  | EExtend ys => Some (xs ++ ys)
  | EAppend ys => Some (xs ++ ys)
  | EPrepend ys => Some (ys ++ xs)
  | EInsert i ys => if i <=? length xs then Some (firstn i xs ++ ys ++ skipn i xs) else None
  | ERemove f a b =>
      let (st, en) := lbounds (length xs) f a b in
      if (st <=? en) && (en <=? length xs) then Some (firstn st xs ++ skipn en xs) else None
  | ETruncate n => Some (firstn n xs)
  | EClear => Some []
  end.

Fixpoint lrun (xs : list N) (ops : list eop) : option (list N) :=
  match ops with
  | [] => Some xs
  | o :: t => match lstep xs o with Some ys => lrun ys t | None => None end
  end.

Section Hist.
Variable C : codec.
Variable dbg : bool.
Hypothesis OK : codec_ok C.
Local Notation B := (c_bits C).

(* the same edit on the model; argument slices are any window of any sequence: [encode B ys] *)
Definition mstep (s : bits) (o : eop) : option bits :=
  match o with
  | EPush x => Some (push C s x)
  | EExtend ys => Some (extend C s ys)
  | EAppend ys => Some (append s (encode B ys))
  | EPrepend ys => Some (prepend s (encode B ys))
  | EInsert i ys => insert C s i (encode B ys)
  | ERemove f a b => remove C dbg s f a b
  | ETruncate n => Some (truncate C s n)
  | EClear => Some []
  end.

Fixpoint mrun (s : bits) (ops : list eop) : option bits :=
  match ops with
  | [] => Some s
  | o :: t => match mstep s o with Some s' => mrun s' t | None => None end
  end.

Lemma step_refines xs o ys :
  lstep xs o = Some ys -> mstep (encode B xs) o = Some (encode B ys).
Proof.
  destruct o as [x|zs|zs|zs|i zs|f a b|n|]; cbn [lstep mstep]; intros H.
  - inversion H; subst. now rewrite push_spec.
  - inversion H; subst. now rewrite extend_spec.
  - inversion H; subst. now rewrite append_spec.
  - inversion H; subst. now rewrite prepend_spec.
  - rewrite (insert_spec C OK). destruct (i <=? length xs); [inversion H; reflexivity|discriminate].
  - pose proof (remove_spec C dbg OK xs f a b) as R.
    rewrite (range_bounds_spec C OK) in R.
    unfold lbounds in H.
    destruct f as [|p]; [|destruct p as [[[|[]|]|[|[]|]|]|[[|[]|]|[|[]|]|]|]];
      cbn beta iota in H, R;
      match type of H with
      | (if (?st <=? ?en) && (?en <=? _) then _ else _) = _ =>
          destruct (Nat.leb_spec st en) as [L1|L1]; cbn [andb] in H; [|discriminate];
          destruct (Nat.leb_spec en (length xs)) as [L2|L2]; [|discriminate];
          inversion H; subst; apply R; assumption
      end.
  - inversion H; subst. now rewrite truncate_spec.
  - inversion H; subst. reflexivity.
Qed.

(* after ANY series of in-bounds edits, length and symbols are exactly those of the list model *)
Theorem history_refines ops xs ys :
  lrun xs ops = Some ys -> mrun (encode B xs) ops = Some (encode B ys).
Proof.
  revert xs. induction ops as [|o t IH]; intros xs H; cbn [lrun mrun] in *.
  - inversion H. reflexivity.
  - destruct (lstep xs o) as [zs|] eqn:E; [|discriminate].
    rewrite (step_refines xs o zs E). apply IH. exact H.
Qed.

Corollary history_length_and_symbols ops xs ys :
  Forall (smallc C) ys -> canonl C ys ->
  lrun xs ops = Some ys ->
  exists s, mrun (encode B xs) ops = Some s /\ slen C s = length ys /\ iter C s = Some ys.
Proof.
  intros Hs Hc H. exists (encode B ys). split; [apply history_refines; exact H|].
  split; [apply (slen_encode C OK) | apply (iter_spec C OK); assumption].
Qed.

(* ---------------- C19: conversion between codecs is map ---------------- *)
Theorem convert_spec (f : N -> res N) (g : N -> N) (B' : nat) xs :
  Forall (smallc C) xs -> canonl C xs ->
  (forall x, In x xs -> f x = Some (g x)) ->
  convert C f B' (encode B xs) = Some (encode B' (map g xs)).
Proof.
  intros Hs Hc Hf. unfold convert. rewrite (iter_spec C OK) by assumption. cbn [bind].
  rewrite (mapM_map f g xs Hf). cbn [bind]. unfold ret, encode. now rewrite map_map.
Qed.

End Hist.

(* ---------------- C13: translation by windows of three ---------------- *)
Section Xlate.
Variable C : codec.
Hypothesis OK : codec_ok C.
Hypothesis B2 : c_bits C = 2.
Variable amino : codec.

Definition codon_value (xs : list N) (i : nat) : N :=
  (nth i xs 0 + 4 * nth (i + 1) xs 0 + 16 * nth (i + 2) xs 0)%N.

Lemma skipn_cons_nth' {X} (l : list X) i d :
  i < length l -> skipn i l = nth i l d :: skipn (S i) l.
Proof.
  revert i. induction l as [|x l IH]; intros i H; simpl in H; [lia|].
  destruct i; [reflexivity|]. cbn [skipn nth]. apply IH. lia.
Qed.

Lemma sub3 xs i : i + 3 <= length xs ->
  sub xs i 3 = [nth i xs 0%N; nth (i + 1) xs 0%N; nth (i + 2) xs 0%N].
Proof.
  intros H. unfold sub.
  rewrite (skipn_cons_nth' xs i 0%N) by lia. cbn [firstn].
  rewrite (skipn_cons_nth' xs (S i) 0%N) by lia. cbn [firstn].
  rewrite (skipn_cons_nth' xs (S (S i)) 0%N) by lia. cbn [firstn].
  replace (i + 1) with (S i) by lia. replace (i + 2) with (S (S i)) by lia. reflexivity.
Qed.

(* every window i..i+3 of a DNA sequence translates to the table entry of ITS triplet, position by
   position, wherever the window falls relative to machine words *)
Theorem windows_translate xs :
  Forall (fun x => (x < 4)%N) xs ->
  exists ws, windows C (encode (c_bits C) xs) 3 = Some (Done ws) /\
             mapM (to_amino C amino) ws =
             mapM (fun i => un_bits amino (codon_value xs i)) (seq 0 (length xs + 1 - 3)).
Proof.
  intros Hx. eexists. split; [apply (windows_spec C OK xs 3); lia|].
  rewrite mapM_premap. 
  assert (G : forall l, (forall i, In i l -> i + 3 <= length xs) ->
    mapM (fun x => to_amino C amino (encode (c_bits C) (sub xs x 3))) l =
    mapM (fun i => un_bits amino (codon_value xs i)) l).
  { induction l as [|i l IH]; intros Hl; [reflexivity|]. cbn [mapM].
    rewrite sub3 by (apply Hl; left; reflexivity).
    rewrite (to_amino_codon C OK B2 amino).
    - unfold codon_value. rewrite IH; [reflexivity|]. intros j Hj. apply Hl. right. exact Hj.
    - rewrite Forall_forall in Hx. apply Hx. apply nth_In. specialize (Hl i (or_introl eq_refl)). lia.
    - rewrite Forall_forall in Hx. apply Hx. apply nth_In. specialize (Hl i (or_introl eq_refl)). lia.
    - rewrite Forall_forall in Hx. apply Hx. apply nth_In. specialize (Hl i (or_introl eq_refl)). lia. }
  apply G. intros i Hi. apply in_seq in Hi. lia.
Qed.

End Xlate.
