(* KmerDna.v — complement / reverse-complement of 2-bit k-mers on usize storage (C09). *)
From Coq Require Import List Arith NArith Lia Bool.
From BioSeq Require Import Bits Codec SeqModel SeqProofs SeqProofs2 KmerModel KmerProofs KmerProofs2 Rev2Bit.
Import ListNotations.

(* flipping both bits of a 2-bit symbol x is 3 - x *)
Definition comp2 (x : N) : N := (3 - x mod 4)%N.

Lemma negb_bits2 x : map negb (to_bits 2 x) = to_bits 2 (comp2 x).
Proof.
  unfold comp2. rewrite <- (to_bits_mod 2 x). change (2 ^ N.of_nat 2)%N with 4%N.
  assert (H : (x mod 4 < 4)%N) by (apply N.mod_lt; lia).
  remember (x mod 4)%N as m eqn:Em. clear Em.
  assert (E : (m = 0 \/ m = 1 \/ m = 2 \/ m = 3)%N) by lia.
  destruct E as [E|[E|[E|E]]]; subst m; reflexivity.
Qed.

Lemma comp2_involutive x : (x < 4)%N -> comp2 (comp2 x) = x.
Proof.
  intros H. unfold comp2.
  assert (E : (x = 0 \/ x = 1 \/ x = 2 \/ x = 3)%N) by lia.
  destruct E as [E|[E|[E|E]]]; subst; reflexivity.
Qed.

Lemma comp2_small x : (comp2 x < 4)%N.
Proof. unfold comp2. apply N.le_lt_trans with 3%N; [apply N.le_sub_l | lia]. Qed.

Section Dna.
Variable C : codec.
Hypothesis OK : codec_ok C.
Variable K : nat.
Hypothesis Kpos : 1 <= K.
Hypothesis B2 : c_bits C = 2.
Hypothesis Fits : K * 2 <= 64.

Let F : K * c_bits C <= 64.
Proof. rewrite B2. exact Fits. Qed.

Theorem kcomplement_2bit xs :
  length xs = K -> kcomplement C K 64 (kval C xs) = kval C (map comp2 xs).
Proof.
  intros HK. apply (kcomplement_spec C OK K 64 Kpos F comp2 xs HK).
  intros x. rewrite B2. apply negb_bits2.
Qed.

Theorem krevcomp_2bit xs :
  length xs = K -> krevcomp C K 64 (kval C xs) = Some (kval C (rev (map comp2 xs))).
Proof.
  intros HK. unfold krevcomp. rewrite kcomplement_2bit by exact HK.
  apply (krev_2bit_spec C OK K Kpos B2 Fits). now rewrite map_length.
Qed.

(* reverse-complement is an involution on k-mers of 2-bit symbols *)
Theorem krevcomp_involutive xs :
  length xs = K -> Forall (fun x => (x < 4)%N) xs ->
  (do y <- krevcomp C K 64 (kval C xs); krevcomp C K 64 y) = Some (kval C xs).
Proof.
  intros HK Hs. rewrite krevcomp_2bit by exact HK. cbn [bind].
  rewrite krevcomp_2bit by (now rewrite rev_length, map_length).
  rewrite map_rev, rev_involutive, map_map.
  rewrite (map_ext_in _ (fun x => x)); [now rewrite map_id|].
  intros x Hx. apply comp2_involutive. rewrite Forall_forall in Hs. apply Hs. exact Hx.
Qed.

(* hence the canonical form min(k, revcomp k) is the same for a k-mer and its reverse complement *)
Corollary canonical_form_symmetric xs y :
  length xs = K -> Forall (fun x => (x < 4)%N) xs ->
  krevcomp C K 64 (kval C xs) = Some y ->
  exists z, krevcomp C K 64 y = Some z /\ N.min (kval C xs) y = N.min y z.
Proof.
  intros HK Hs Hy. pose proof (krevcomp_involutive xs HK Hs) as H. rewrite Hy in H. cbn [bind] in H.
  exists (kval C xs). split; [exact H | apply N.min_comm].
Qed.

End Dna.
