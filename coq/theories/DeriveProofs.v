(* DeriveProofs.v — for EVERY well-formed enum declaration the derived codec implements exactly
   what the declaration says, and satisfies codec_ok, so every generic sequence theorem
   (C01, C03, C06, C07, C11, ...) holds for it by instantiation (C17). *)
From Coq Require Import List Arith NArith Lia Bool.
From BioSeq Require Import Bits Codec Tables Derive.
Import ListNotations.

(* ---------------- first-match association lists ---------------- *)
Lemma fm_in (arms : list (N * N)) k v :
  NoDup (map fst arms) -> In (k, v) arms -> first_match arms k = Some v.
Proof.
  unfold first_match. induction arms as [|[k' v'] t IH]; intros ND Hin; [destruct Hin|].
  cbn [find fst]. inversion ND as [|? ? Hnot ND']; subst. destruct Hin as [E|Hin].
  - inversion E; subst. rewrite N.eqb_refl. reflexivity.
  - destruct (N.eqb_spec k' k) as [->|_].
    + exfalso. apply Hnot. apply in_map_iff. exists (k, v). split; [reflexivity|exact Hin].
    + apply IH; assumption.
Qed.

Lemma fm_some (arms : list (N * N)) k v : first_match arms k = Some v -> In (k, v) arms.
Proof.
  unfold first_match. induction arms as [|[k' v'] t IH]; cbn [find fst]; [discriminate|].
  destruct (N.eqb_spec k' k) as [->|_]; cbn [option_map snd].
  - intros E. inversion E. left. reflexivity.
  - intros E. right. apply IH. exact E.
Qed.

Lemma fm_none (arms : list (N * N)) k : ~ In k (map fst arms) -> first_match arms k = None.
Proof.
  unfold first_match. induction arms as [|[k' v'] t IH]; intros H; [reflexivity|]. cbn [find fst].
  destruct (N.eqb_spec k' k) as [->|_].
  - exfalso. apply H. left. reflexivity.
  - apply IH. intro Hin. apply H. right. exact Hin.
Qed.

Lemma tget_map_bytes (f : N -> option N) b :
  tget (map f bytes256) b = if (b <? 256)%N then f b else None.
Proof.
  unfold tget, bytes256. destruct (N.ltb_spec b 256) as [H|H].
  - rewrite map_map.
    rewrite (nth_indep _ None (f (N.of_nat 0))) by (rewrite map_length, seq_length; lia).
    rewrite (map_nth (fun x => f (N.of_nat x))). rewrite seq_nth by lia. cbn [Nat.add].
    now rewrite N2Nat.id.
  - apply nth_overflow. rewrite !map_length, seq_length. lia.
Qed.

(* ---------------- well-formed declarations ---------------- *)
Section Wf.
Variable width_fn : option N -> N -> wres.
(* the width function meets its specification (decided on the regenerated table every run) *)
Hypothesis width_ok : forall a m, (m < 256)%N ->
  match a with Some w => (w <= 8)%N | None => True end -> width_fn a m = width_spec a m.

(* a declaration presented as its variants paired with their discriminant values *)
Definition vchars (vds : list (variant * N)) : list N := map (fun vd => char_of (fst vd)) vds.
Definition vdiscs (vds : list (variant * N)) : list N := map snd vds.
Definition varms (vds : list (variant * N)) : list (N * N) :=
  concat (map (fun vd => arms_of (fst vd) (snd vd)) vds).

Record wf_decl (d : decl) (vds : list (variant * N)) : Prop := {
  wf_vs : map fst vds = d_variants d;
  wf_discs : all_discs (d_variants d) = Some (vdiscs vds);
  wf_two : 2 <= length vds;
  (* discriminants and alternatives are pairwise distinct byte values *)
  wf_keys : NoDup (map fst (varms vds));
  wf_keys_byte : Forall (fun k => (k < 256)%N) (map fst (varms vds));
  (* display characters are pairwise distinct bytes *)
  wf_chars : NoDup (vchars vds);
  wf_chars_byte : Forall (fun c => (c < 256)%N) (vchars vds);
  (* the declared width, if any, is at least the minimal one and at most 8 *)
  wf_width : match d_bits d with
             | None => True
             | Some w => (minbits (fold_left N.max (vdiscs vds) 0) <= w)%N /\ (w <= 8)%N
             end
}.

Definition the_width (d : decl) (vds : list (variant * N)) : N :=
  match d_bits d with
  | None => minbits (fold_left N.max (vdiscs vds) 0%N)
  | Some w => w
  end.

(* what the declaration says, as a specification of a codec *)
Record implements (d : decl) (vds : list (variant * N)) (C : codec) : Prop := {
  im_bits : c_bits C = N.to_nat (the_width d vds);
  im_items : c_items C = vdiscs vds;
  (* each variant decodes from its discriminant and from each listed alternative ... *)
  im_decode : forall v x, In (v, x) vds ->
      try_bits C x = Some x /\ (forall a, In a (v_alts v) -> try_bits C a = Some x);
  (* ... every other bit pattern is refused ... *)
  im_refuse_bits : forall b, ~ In b (map fst (varms vds)) -> try_bits C b = None;
  (* ... prints as its display character (default: first letter of its name) and parses from it *)
  im_char : forall v x, In (v, x) vds ->
      to_char C x = Some (char_of v) /\ try_ascii C (char_of v) = Some x;
  im_refuse_ascii : forall c, ~ In c (vchars vds) -> try_ascii C c = None;
  (* the unchecked decoders agree with the fallible ones (panic where those refuse) *)
  im_unchecked : forall b, un_bits C b = try_bits C b /\ un_ascii C b = try_ascii C b
}.

Lemma fold_max_ge l a x : In x l -> (x <= fold_left N.max l a)%N.
Proof.
  revert a. induction l as [|y l IH]; intros a H; [destruct H|]. cbn [fold_left].
  destruct H as [->|H].
  - clear IH. assert (G : forall l b, (b <= fold_left N.max l b)%N).
    { clear. induction l as [|z l IH]; intros b; cbn [fold_left]; [lia|].
      etransitivity; [|apply IH]. lia. }
    etransitivity; [|apply G]. lia.
  - apply IH. exact H.
Qed.

Lemma fold_max_init_le l a b : (a <= b)%N -> (fold_left N.max l a <= fold_left N.max l b)%N.
Proof.
  revert a b. induction l as [|y l IH]; intros a b H; cbn [fold_left]; [exact H|]. apply IH. lia.
Qed.

Lemma fold_max_lt l a bound :
  (a < bound)%N -> Forall (fun x => (x < bound)%N) l -> (fold_left N.max l a < bound)%N.
Proof.
  revert a. induction l as [|y l IH]; intros a Ha Hl; cbn [fold_left]; [exact Ha|].
  inversion Hl; subst. apply IH; [lia|assumption].
Qed.

Lemma minbits_spec m : (m < 256)%N -> (m < 2 ^ minbits m)%N /\ (minbits m <= 8)%N.
Proof.
  intros H. unfold minbits.
  assert (G : forall fuel n, (n + N.of_nat fuel = 9)%N -> (m < 2 ^ 8)%N ->
              (n = 0 \/ 2 ^ (n - 1) <= m)%N ->
              (m < 2 ^ minbits_aux fuel n m)%N /\ (minbits_aux fuel n m <= 8)%N).
  { induction fuel as [|f IH]; intros n Hn Hm Hlow; cbn [minbits_aux].
    - assert (n = 9)%N by lia. subst. destruct Hlow as [E|E]; [lia|].
      change (2 ^ (9 - 1))%N with 256%N in E. change (2 ^ 8)%N with 256%N in Hm. lia.
    - destruct (N.ltb_spec m (2 ^ n)) as [L|L].
      + split; [exact L|].
        destruct (N.le_gt_cases n 8) as [Q|Q]; [exact Q|].
        exfalso. assert (n = 9)%N by lia. subst. lia.
      + apply IH; [lia | exact Hm |]. right. replace (n + 1 - 1)%N with n by lia. exact L. }
  apply (G 9%nat 0%N); [reflexivity | exact H | left; reflexivity].
Qed.

Lemma minbits_aux_ge fuel k m : (k <= minbits_aux fuel k m)%N.
Proof.
  revert k. induction fuel as [|f IH]; intros k; cbn [minbits_aux]; [lia|].
  destruct (m <? 2 ^ k)%N; [lia|]. etransitivity; [|apply IH]. lia.
Qed.

Lemma minbits_pos m : (1 <= m)%N -> (1 <= minbits m)%N.
Proof.
  intros H. unfold minbits.
  change (minbits_aux 9 0 m) with (if (m <? 2 ^ 0)%N then 0%N else minbits_aux 8 (0 + 1) m).
  destruct (N.ltb_spec m (2 ^ 0)) as [L|L].
  - change (2 ^ 0)%N with 1%N in L. lia.
  - etransitivity; [|apply minbits_aux_ge]. lia.
Qed.

Lemma nodupb_complete l : NoDup l -> nodupb l = true.
Proof.
  induction 1 as [|x l Hx _ IH]; [reflexivity|]. cbn [nodupb]. rewrite IH, andb_true_r.
  apply negb_true_iff. destruct (existsb (N.eqb x) l) eqn:E; [|reflexivity].
  exfalso. apply existsb_exists in E. destruct E as [y [Hy E]]. apply N.eqb_eq in E. subst. contradiction.
Qed.

Lemma combine_fst_snd {X Y} (l : list (X * Y)) : combine (map fst l) (map snd l) = l.
Proof. induction l as [|[a b] l IH]; [reflexivity|]. cbn [map combine fst snd]. now rewrite IH. Qed.

Lemma disc_in_keys vds v x : In (v, x) vds -> In (x, x) (varms vds).
Proof.
  intros H. unfold varms. apply in_concat. exists (arms_of v x). split.
  - apply in_map_iff. exists (v, x). split; [reflexivity|exact H].
  - left. reflexivity.
Qed.

Lemma alt_in_keys vds v x a : In (v, x) vds -> In a (v_alts v) -> In (a, x) (varms vds).
Proof.
  intros H Ha. unfold varms. apply in_concat. exists (arms_of v x). split.
  - apply in_map_iff. exists (v, x). split; [reflexivity|exact H].
  - right. apply in_map_iff. exists a. split; [reflexivity|exact Ha].
Qed.

Lemma arm_values vds k s : In (k, s) (varms vds) -> exists v, In (v, s) vds.
Proof.
  unfold varms. intros H. apply in_concat in H. destruct H as [arms [Ha Hin]].
  apply in_map_iff in Ha. destruct Ha as [[v x] [<- Hvx]]. cbn [fst snd arms_of] in Hin.
  destruct Hin as [E|Hin].
  - inversion E; subst. exists v. exact Hvx.
  - apply in_map_iff in Hin. destruct Hin as [a [E _]]. inversion E; subst. exists v. exact Hvx.
Qed.

Lemma NoDup_app_r {X} (a b : list X) : NoDup (a ++ b) -> NoDup b.
Proof.
  induction a as [|x a IH]; cbn [app]; intros H; [exact H|]. inversion H; subst. apply IH. assumption.
Qed.

Lemma NoDup_discs vds : NoDup (map fst (varms vds)) -> NoDup (vdiscs vds).
Proof.
  unfold varms, vdiscs. induction vds as [|[v x] t IH]; intros H; [constructor|].
  cbn [map concat fst snd arms_of] in *. rewrite map_app in H. cbn [map fst] in H.
  inversion H as [|? ? Hnot ND]; subst. constructor.
  - intro Hin. apply Hnot. apply in_or_app. right.
    apply in_map_iff in Hin. destruct Hin as [[v' x'] [E Hin]]. cbn [snd] in E. subst x'.
    apply in_map_iff. exists (x, x). split; [reflexivity|].
    apply (disc_in_keys t v' x Hin).
  - apply IH. apply NoDup_app_r in ND. exact ND.
Qed.

(* the codec the derive model builds from a well-formed declaration *)
Theorem derive_implements (d : decl) (vds : list (variant * N)) :
  wf_decl d vds ->
  exists C, derive width_fn d = Compiled C /\ implements d vds C /\ codec_ok C.
Proof.
  intros WF. destruct WF as [Hvs Hds Htwo Hkeys Hkb Hchars Hcb Hw].
  assert (NDd : NoDup (vdiscs vds)) by (apply NoDup_discs; exact Hkeys).
  assert (Dlt : Forall (fun x => (x < 256)%N) (vdiscs vds)).
  { rewrite Forall_forall. intros x Hx. unfold vdiscs in Hx. apply in_map_iff in Hx.
    destruct Hx as [[v x'] [E Hin]]. cbn [snd] in E. subst x'.
    rewrite Forall_forall in Hkb. apply Hkb. apply in_map_iff. exists (x, x). split; [reflexivity|].
    apply (disc_in_keys vds v x Hin). }
  set (maxd := fold_left N.max (vdiscs vds) 0%N).
  assert (Mlt : (maxd < 256)%N) by (apply (fold_max_lt (vdiscs vds) 0%N 256%N); [reflexivity|exact Dlt]).
  assert (Wspec : width_fn (d_bits d) maxd = WOk (the_width d vds)).
  { rewrite width_ok; [|exact Mlt|destruct (d_bits d); [destruct Hw; assumption|exact I]].
    unfold width_spec, the_width. fold maxd.
    destruct (d_bits d) as [w|]; [|reflexivity]. destruct Hw as [Hw1 _]. fold maxd in Hw1.
    destruct (N.ltb_spec w (minbits maxd)); [lia|reflexivity]. }
  assert (NE : d_variants d <> []).
  { intro E. rewrite <- Hvs in E. apply (f_equal (@length variant)) in E.
    rewrite map_length in E. cbn [length] in E. lia. }
  unfold derive.
  destruct (d_variants d) as [|v0 vt] eqn:Evs; [congruence|].
  unfold derive_body. rewrite Hds. rewrite (nodupb_complete _ NDd). cbn [negb].
  fold maxd. rewrite Wspec. rewrite <- Hvs. unfold vdiscs. rewrite combine_fst_snd.
  fold (varms vds).
  eexists. split; [reflexivity|].
  (* facts about the three association lists *)
  set (arms := varms vds).
  set (from_chars := map (fun vd : variant * N => (char_of (fst vd), snd vd)) vds).
  set (to_chars := map (fun vd : variant * N => (snd vd, char_of (fst vd))) vds).
  assert (FCk : map fst from_chars = vchars vds).
  { unfold from_chars, vchars. rewrite map_map. reflexivity. }
  assert (TCk : map fst to_chars = vdiscs vds).
  { unfold to_chars, vdiscs. rewrite map_map. reflexivity. }
  assert (TB : forall b, tget (map (first_match arms) bytes256) b = first_match arms b).
  { intros b. rewrite tget_map_bytes. destruct (N.ltb_spec b 256) as [L|L]; [reflexivity|].
    symmetry. apply fm_none. intro Hin. rewrite Forall_forall in Hkb. specialize (Hkb b Hin). lia. }
  assert (TA : forall c, tget (map (first_match from_chars) bytes256) c = first_match from_chars c).
  { intros c. rewrite tget_map_bytes. destruct (N.ltb_spec c 256) as [L|L]; [reflexivity|].
    symmetry. apply fm_none. rewrite FCk. intro Hin. rewrite Forall_forall in Hcb.
    specialize (Hcb c Hin). lia. }
  assert (DEC : forall v x, In (v, x) vds -> first_match arms x = Some x).
  { intros v x Hin. apply fm_in; [exact Hkeys|]. apply (disc_in_keys vds v x Hin). }
  assert (CH : forall v x, In (v, x) vds ->
             tget (map (fun b => match first_match arms b with
                                 | Some s => if N.eqb s b then first_match to_chars s else None
                                 | None => None end) bytes256) x = Some (char_of v)).
  { intros v x Hin. rewrite tget_map_bytes.
    assert (L : (x < 256)%N).
    { rewrite Forall_forall in Dlt. apply Dlt. unfold vdiscs. apply in_map_iff.
      exists (v, x). split; [reflexivity|exact Hin]. }
    apply N.ltb_lt in L. rewrite L. rewrite (DEC v x Hin), N.eqb_refl.
    apply fm_in; [rewrite TCk; exact NDd|]. unfold to_chars. apply in_map_iff.
    exists (v, x). split; [reflexivity|exact Hin]. }
  assert (ASC : forall v x, In (v, x) vds -> first_match from_chars (char_of v) = Some x).
  { intros v x Hin. apply fm_in; [rewrite FCk; exact Hchars|]. unfold from_chars. apply in_map_iff.
    exists (v, x). split; [reflexivity|exact Hin]. }
  assert (IMPL : implements d vds
    {| c_bits := N.to_nat (the_width d vds); c_items := map snd vds;
       c_try_bits := map (first_match arms) bytes256; c_un_bits := map (first_match arms) bytes256;
       c_try_ascii := map (first_match from_chars) bytes256;
       c_un_ascii := map (first_match from_chars) bytes256;
       c_char := map (fun b => match first_match arms b with
                               | Some s => if N.eqb s b then first_match to_chars s else None
                               | None => None end) bytes256;
       c_comp := repeat None 256; c_has_comp := false;
       c_mask := repeat None 256; c_unmask := repeat None 256; c_has_mask := false |}).
  { constructor; unfold try_bits, un_bits, try_ascii, un_ascii, to_char; cbn [c_bits c_items c_try_bits
      c_un_bits c_try_ascii c_un_ascii c_char].
    - reflexivity.
    - reflexivity.
    - intros v x Hin. split.
      + rewrite TB. exact (DEC v x Hin).
      + intros a Ha. rewrite TB. apply fm_in; [exact Hkeys|]. apply (alt_in_keys vds v x a Hin Ha).
    - intros b Hb. rewrite TB. apply fm_none. exact Hb.
    - intros v x Hin. split; [exact (CH v x Hin)|]. rewrite TA. exact (ASC v x Hin).
    - intros c Hc. rewrite TA. apply fm_none. rewrite FCk. exact Hc.
    - intros b. split; reflexivity. }
  split; [exact IMPL|].
  (* codec_ok *)
  assert (W8 : (the_width d vds <= 8)%N).
  { unfold the_width. destruct (d_bits d) as [w|]; [destruct Hw; assumption|].
    apply (minbits_spec maxd Mlt). }
  assert (Wmin : (minbits maxd <= the_width d vds)%N).
  { unfold the_width. fold maxd. destruct (d_bits d) as [w|]; [destruct Hw; assumption|lia]. }
  assert (M1 : (1 <= maxd)%N).
  { (* two distinct discriminants: the larger is at least 1 *)
    destruct vds as [|[v1 x1] [|[v2 x2] t]]; cbn [length] in Htwo; try lia.
    unfold vdiscs in NDd. cbn [map snd] in NDd.
    assert (x1 <> x2) by (inversion NDd as [|? ? Hn _]; subst; intro E; apply Hn; left; congruence).
    assert (x1 <= maxd)%N by (apply fold_max_ge; left; reflexivity).
    assert (x2 <= maxd)%N by (apply fold_max_ge; right; left; reflexivity). lia. }
  assert (SM : forall x, In x (vdiscs vds) -> small (N.to_nat (the_width d vds)) x).
  { intros x Hx. unfold small. rewrite N2Nat.id.
    assert (x <= maxd)%N by (apply fold_max_ge; exact Hx).
    assert (maxd < 2 ^ minbits maxd)%N by (apply (minbits_spec maxd Mlt)).
    assert (2 ^ minbits maxd <= 2 ^ the_width d vds)%N by (apply N.pow_le_mono_r; lia). lia. }
  assert (INV : forall x, In x (vdiscs vds) -> exists v, In (v, x) vds).
  { intros x Hx. unfold vdiscs in Hx. apply in_map_iff in Hx. destruct Hx as [[v x'] [E Hin]].
    cbn [snd] in E. subst. exists v. exact Hin. }
  constructor; unfold try_bits, un_bits, try_ascii, un_ascii, to_char, canon; cbn [c_bits c_items c_try_bits
    c_un_bits c_try_ascii c_un_ascii c_char].
  - pose proof (minbits_pos maxd M1). lia.
  - lia.
  - exact NDd.
  - rewrite map_length. unfold bytes256. now rewrite map_length, seq_length.
  - rewrite map_length. unfold bytes256. now rewrite map_length, seq_length.
  - intros x Hx. destruct (INV x Hx) as [v Hin]. split; [apply SM; exact Hx|].
    split; [rewrite TB; exact (DEC v x Hin)|]. split; [rewrite TB; exact (DEC v x Hin)|].
    exists (char_of v). split; [exact (CH v x Hin)|]. split.
    + rewrite Forall_forall in Hcb. apply Hcb. unfold vchars. apply in_map_iff.
      exists (v, x). split; [reflexivity|exact Hin].
    + split; rewrite TA; exact (ASC v x Hin).
  - intros b s _ Hs. rewrite TB in Hs. apply fm_some in Hs. destruct (arm_values vds b s Hs) as [v Hin].
    assert (Hx : In s (vdiscs vds)).
    { unfold vdiscs. apply in_map_iff. exists (v, s). split; [reflexivity|exact Hin]. }
    split; [apply SM; exact Hx|]. split; [unfold un_bits; cbn [c_un_bits]; rewrite TB; exact (DEC v s Hin)|].
    rewrite TB. apply fm_in; [exact Hkeys|exact Hs].
  - intros c s _ Hs. rewrite TA in Hs. apply fm_some in Hs. unfold from_chars in Hs.
    apply in_map_iff in Hs. destruct Hs as [[v x] [E Hin]]. cbn [fst snd] in E. inversion E; subst.
    split.
    + change (map snd vds) with (vdiscs vds). unfold vdiscs. apply in_map_iff.
      exists (v, s). split; [reflexivity|exact Hin].
    + rewrite TA. exact (ASC v s Hin).
  - intros x y ch Hx Hy Ex Ey. change (map snd vds) with (vdiscs vds) in Hx, Hy.
    destruct (INV x Hx) as [vx Hinx]. destruct (INV y Hy) as [vy Hiny].
    rewrite (CH vx x Hinx) in Ex. rewrite (CH vy y Hiny) in Ey.
    inversion Ex; inversion Ey; subst.
    (* same display character => same entry of the key-distinct from_chars list *)
    pose proof (ASC vx x Hinx) as A1. pose proof (ASC vy y Hiny) as A2.
    match goal with h : char_of vy = char_of vx |- _ => rewrite h in A2 end. congruence.
Qed.

End Wf.

(* the compiled parse_width meets its specification wherever the check on the regenerated table
   says so: all largest discriminants 0..255, no attribute or #[bits(0..8)] (a declared width above 8
   cannot be honoured by a u8 codec; whether it is rejected is not part of the property) *)
Lemma width_tables_sound none attr :
  width_tables_ok none attr = true ->
  forall a m, (m < 256)%N -> match a with Some w => (w <= 8)%N | None => True end ->
  width_of_tables none attr a m = width_spec a m.
Proof.
  unfold width_tables_ok. intros H a m Hm Ha. apply andb_prop in H. destruct H as [H1 H2].
  rewrite forallb_forall in H1, H2.
  assert (Hin : In m bytes256) by (apply bytes256_in; exact Hm).
  destruct a as [w|].
  - assert (Hw : In w (map N.of_nat (seq 0 9))).
    { apply in_map_iff. exists (N.to_nat w). split; [apply N2Nat.id|]. apply in_seq. lia. }
    specialize (H2 w Hw). rewrite forallb_forall in H2. specialize (H2 m Hin).
    destruct (width_of_tables none attr (Some w) m), (width_spec (Some w) m); cbn in H2;
      try discriminate; try reflexivity. apply N.eqb_eq in H2. now subst.
  - specialize (H1 m Hin).
    destruct (width_of_tables none attr None m), (width_spec None m); cbn in H1;
      try discriminate; try reflexivity. apply N.eqb_eq in H1. now subst.
Qed.
