(* Nested.v — a nest of ranges of ANY depth, with any mixture of the seven range forms, denotes one
   contiguous window of the parent: the list machine's [lapply] (which Refine.v proves the bit-level
   VM follows, and which the correspondence check compares with the library) returns [sub xs a w]
   with a + w <= length xs, where a is the sum of the starts chosen at each level.  Hence symbol i
   of the innermost slice is symbol a + i of the sequence, symbols outside the window are never
   reachable through the slice, and the window can only shrink with depth. *)
From Coq Require Import List Arith NArith Lia Bool.
From BioSeq Require Import Bits Codec Tables Spec SeqModel KmerModel VM SeqProofs SeqProofs2 IterProofs
  History Refine.
Import ListNotations.

Lemma sub_length xs a w : a + w <= length xs -> length (sub xs a w) = w.
Proof. intros H. unfold sub. rewrite firstn_length, skipn_length. lia. Qed.

Lemma sub_all (xs : list N) : sub xs 0 (length xs) = xs.
Proof. unfold sub. cbn [skipn]. apply firstn_all. Qed.

Lemma sub_sub xs a m c w : c + w <= m -> sub (sub xs a m) c w = sub xs (a + c) w.
Proof.
  intros H. unfold sub.
  rewrite skipn_firstn_comm, firstn_firstn, skipn_skipn'.
  replace (Init.Nat.min w (m - c)) with w by lia. reflexivity.
Qed.

Lemma nth_firstn_lt {X} (d : X) : forall (l : list X) w i, i < w -> nth i (firstn w l) d = nth i l d.
Proof.
  induction l as [|x l IH]; intros w i Hi.
  - now rewrite firstn_nil.
  - destruct w as [|w]; [lia|]. destruct i as [|i]; [reflexivity|].
    cbn [firstn nth]. apply IH. lia.
Qed.

Lemma nth_skipn_add {X} (d : X) : forall (l : list X) a i, nth i (skipn a l) d = nth (a + i) l d.
Proof.
  induction l as [|x l IH]; intros a i.
  - rewrite skipn_nil. destruct i; destruct (a + _); reflexivity.
  - destruct a as [|a]; [reflexivity|]. cbn [skipn plus nth]. apply IH.
Qed.

Lemma sub_nth xs a w i : a + w <= length xs -> i < w -> nth i (sub xs a w) 0%N = nth (a + i) xs 0%N.
Proof.
  intros Hb Hi. unfold sub.
  rewrite nth_firstn_lt by exact Hi. apply nth_skipn_add.
Qed.

(* one level: the start and end picked by the range form *)
Lemma lindex_window xs f a b ys :
  lindex xs f a b = Some ys ->
  exists st w, st + w <= length xs /\ ys = sub xs st w /\
               (st, st + w) = ibounds (length xs) f a b.
Proof.
  unfold lindex. destruct (6 <? f)%N; [discriminate|].
  destruct (ibounds (length xs) f a b) as [st en] eqn:E.
  destruct ((st <=? en) && (en <=? length xs)) eqn:G; [|discriminate].
  apply andb_true_iff in G. destruct G as [G1 G2].
  apply Nat.leb_le in G1. apply Nat.leb_le in G2.
  intros H. injection H as <-. exists st, (en - st). split; [lia|]. split; [reflexivity|].
  f_equal. lia.
Qed.

(* the offset of the innermost window: the sum of the starts of every level (None when some level
   leaves its parent) *)
Fixpoint loffset (n : nat) (rs : list (N * N * N)) : option (nat * nat) :=
  match rs with
  | [] => Some (0, n)
  | (f, a, b) :: t =>
      if (6 <? f)%N then None else
      let (st, en) := ibounds n f (N.to_nat a) (N.to_nat b) in
      if (st <=? en) && (en <=? n) then
        match loffset (en - st) t with
        | Some (o, w) => Some (st + o, w)
        | None => None
        end
      else None
  end.

Theorem lapply_loffset rs : forall xs,
  lapply xs rs = match loffset (length xs) rs with
                 | Some (o, w) => Some (sub xs o w)
                 | None => None
                 end.
Proof.
  induction rs as [|[[f a] b] t IH]; intros xs; cbn [lapply loffset].
  - now rewrite sub_all.
  - unfold lindex. destruct (6 <? f)%N; [reflexivity|].
    destruct (ibounds (length xs) f (N.to_nat a) (N.to_nat b)) as [st en].
    destruct ((st <=? en) && (en <=? length xs)) eqn:G; [|reflexivity].
    apply andb_true_iff in G. destruct G as [G1 G2].
    apply Nat.leb_le in G1. apply Nat.leb_le in G2.
    rewrite IH. rewrite sub_length by lia.
    destruct (loffset (en - st) t) as [[o w]|] eqn:E; [|reflexivity].
    assert (Hw : o + w <= en - st).
    { clear -E. revert o w E. generalize (en - st) as n.
      induction t as [|[[f a] b] t IHt]; intros n o w E; cbn [loffset] in E.
      - injection E as <- <-. lia.
      - destruct (6 <? f)%N; [discriminate|].
        destruct (ibounds n f (N.to_nat a) (N.to_nat b)) as [s e].
        destruct ((s <=? e) && (e <=? n)) eqn:G; [|discriminate].
        apply andb_true_iff in G. destruct G as [G1 G2].
        apply Nat.leb_le in G1. apply Nat.leb_le in G2.
        destruct (loffset (e - s) t) as [[o' w']|] eqn:E'; [|discriminate].
        injection E as <- <-. specialize (IHt _ _ _ E'). lia. }
    now rewrite sub_sub by lia.
Qed.

Lemma loffset_bound rs : forall n o w, loffset n rs = Some (o, w) -> o + w <= n.
Proof.
  induction rs as [|[[f a] b] t IHt]; intros n o w E; cbn [loffset] in E.
  - injection E as <- <-. lia.
  - destruct (6 <? f)%N; [discriminate|].
    destruct (ibounds n f (N.to_nat a) (N.to_nat b)) as [s e].
    destruct ((s <=? e) && (e <=? n)) eqn:G; [|discriminate].
    apply andb_true_iff in G. destruct G as [G1 G2].
    apply Nat.leb_le in G1. apply Nat.leb_le in G2.
    destruct (loffset (e - s) t) as [[o' w']|] eqn:E'; [|discriminate].
    injection E as <- <-. specialize (IHt _ _ _ E'). lia.
Qed.

(* any depth, any forms: one window of the parent, every symbol at its shifted position *)
Theorem nested_ranges_one_window rs xs ys :
  lapply xs rs = Some ys ->
  exists o w, loffset (length xs) rs = Some (o, w) /\ o + w <= length xs /\
              ys = firstn w (skipn o xs) /\ length ys = w /\
              forall i, i < w -> nth i ys 0%N = nth (o + i) xs 0%N.
Proof.
  rewrite lapply_loffset. destruct (loffset (length xs) rs) as [[o w]|] eqn:E; [|discriminate].
  intros H. injection H as <-. pose proof (loffset_bound _ _ _ _ E) as Hb.
  exists o, w. split; [reflexivity|]. split; [exact Hb|]. split; [reflexivity|].
  split; [now apply sub_length|]. intros i Hi. now apply sub_nth.
Qed.

(* and refusal is exactly the case in which some level leaves its parent *)
Theorem nested_ranges_refused_iff rs xs :
  lapply xs rs = None <-> loffset (length xs) rs = None.
Proof.
  rewrite lapply_loffset. destruct (loffset (length xs) rs) as [[o w]|]; split; congruence.
Qed.

(* non-vacuity: s[2..][..=3][1..3] of an 8-symbol sequence is s[3..5] *)
Example nested_example :
  lapply [0;1;2;3;4;5;6;7]%N [(4,2,0); (3,0,3); (0,1,3)]%N = Some [3;4]%N /\
  loffset 8 [(4,2,0); (3,0,3); (0,1,3)]%N = Some (3, 2).
Proof. split; reflexivity. Qed.

(* ... in ANY history: whatever a script did before, as long as the list machine tracks the state,
   the bit-level slice the VM (and so the library, by the correspondence) reaches through a nest of
   ranges over register r is the packing of ONE window of that register's symbols, at the summed
   offset; nothing outside the window is part of it *)
Theorem nested_slice_in_any_history (C : codec) st l r rs xs ys :
  abs C st l -> lget l r = Some xs -> lapply xs rs = Some ys ->
  exists o w, loffset (length xs) rs = Some (o, w) /\ o + w <= length xs /\
              slice_of C st (SD r rs) = Some (encode (c_bits C) (firstn w (skipn o xs))) /\
              forall i, i < w -> nth i ys 0%N = nth (o + i) xs 0%N.
Proof.
  intros A G E.
  destruct (nested_ranges_one_window _ _ _ E) as (o & w & E1 & E2 & E3 & _ & E5).
  exists o, w. split; [exact E1|]. split; [exact E2|]. split; [|exact E5].
  rewrite <- E3. apply (slice_abs C st l (SD r rs) ys A).
  cbn [lslice]. now rewrite G.
Qed.
