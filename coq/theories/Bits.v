(* Bits.v — the bit layer: the list-of-bools abstraction of bitvec's BitSlice<usize, Lsb0>.
   Index 0 of a list is the first bit of the slice (least significant under Lsb0).
   of_bits = BitField::load_le ; to_bits n = the n low bits, LSB first (view_bits / store). *)
From Coq Require Import List Arith NArith Lia Bool.
Import ListNotations.
Set Implicit Arguments.

Definition bits := list bool.

Fixpoint of_bits (l : bits) : N :=
  match l with
  | [] => 0%N
  | b :: t => ((if b then 1 else 0) + 2 * of_bits t)%N
  end.

Fixpoint to_bits (n : nat) (x : N) : bits :=
  match n with
  | O => []
  | S n' => N.odd x :: to_bits n' (N.div2 x)
  end.

Lemma to_bits_length n x : length (to_bits n x) = n.
Proof. revert x; induction n; simpl; intros; auto. Qed.

Lemma odd_mod2 x : (if N.odd x then 1 else 0)%N = (x mod 2)%N.
Proof. rewrite <- N.bit0_mod, N.bit0_odd. destruct (N.odd x); reflexivity. Qed.

Lemma of_bits_to_bits n x : of_bits (to_bits n x) = (x mod 2 ^ N.of_nat n)%N.
Proof.
  revert x; induction n as [|n IH]; intros x.
  - simpl. now rewrite N.mod_1_r.
  - cbn [to_bits of_bits]. rewrite IH.
    rewrite Nat2N.inj_succ, N.pow_succ_r'.
    rewrite N.div2_div.
    assert (H2 : (2 ^ N.of_nat n <> 0)%N) by (apply N.pow_nonzero; lia).
    rewrite (N.mod_mul_r x 2 (2 ^ N.of_nat n)) by lia.
    rewrite odd_mod2. lia.
Qed.

Lemma of_bits_bound l : (of_bits l < 2 ^ N.of_nat (length l))%N.
Proof.
  induction l as [|b t IH]; cbn [of_bits length].
  - simpl; lia.
  - rewrite Nat2N.inj_succ, N.pow_succ_r'. destruct b; lia.
Qed.

Lemma odd_b2 (b : bool) m : N.odd ((if b then 1 else 0) + 2 * m)%N = b.
Proof.
  destruct b.
  - replace (1 + 2 * m)%N with (N.succ_double m) by (rewrite N.succ_double_spec; lia).
    destruct m; reflexivity.
  - replace (0 + 2 * m)%N with (N.double m) by (rewrite N.double_spec; lia).
    destruct m; reflexivity.
Qed.

Lemma div2_b2 (b : bool) m : N.div2 ((if b then 1 else 0) + 2 * m)%N = m.
Proof.
  destruct b.
  - replace (1 + 2 * m)%N with (N.succ_double m) by (rewrite N.succ_double_spec; lia).
    destruct m; reflexivity.
  - replace (0 + 2 * m)%N with (N.double m) by (rewrite N.double_spec; lia).
    destruct m; reflexivity.
Qed.

Lemma to_bits_of_bits l : to_bits (length l) (of_bits l) = l.
Proof.
  induction l as [|b t IH]; cbn [of_bits length to_bits]; auto.
  rewrite odd_b2, div2_b2, IH. reflexivity.
Qed.

Lemma of_bits_app a b :
  of_bits (a ++ b) = (of_bits a + 2 ^ N.of_nat (length a) * of_bits b)%N.
Proof.
  induction a as [|x a IH]; cbn [app of_bits length].
  - change (N.of_nat 0) with 0%N. rewrite N.pow_0_r. lia.
  - rewrite IH, Nat2N.inj_succ, N.pow_succ_r'. destruct x; ring.
Qed.

Lemma of_bits_inj a b : length a = length b -> of_bits a = of_bits b -> a = b.
Proof.
  intros Hl He. rewrite <- (to_bits_of_bits a), <- (to_bits_of_bits b), Hl, He. reflexivity.
Qed.

Lemma to_bits_small n x : (x < 2 ^ N.of_nat n)%N -> of_bits (to_bits n x) = x.
Proof. intros H. rewrite of_bits_to_bits. apply N.mod_small; exact H. Qed.

Lemma to_bits_mod n x : to_bits n (x mod 2 ^ N.of_nat n) = to_bits n x.
Proof.
  apply of_bits_inj.
  - now rewrite !to_bits_length.
  - rewrite !of_bits_to_bits. apply N.mod_mod. apply N.pow_nonzero; lia.
Qed.

Lemma of_bits_repeat_false n : of_bits (repeat false n) = 0%N.
Proof. induction n; simpl; auto. rewrite IHn. reflexivity. Qed.

Lemma of_bits_app_zeros a n : of_bits (a ++ repeat false n) = of_bits a.
Proof. rewrite of_bits_app, of_bits_repeat_false. lia. Qed.

Lemma to_bits_zero n : to_bits n 0 = repeat false n.
Proof. induction n; simpl; auto. f_equal. exact IHn. Qed.

Lemma to_bits_add n m x :
  to_bits (n + m) x = to_bits n x ++ to_bits m (x / 2 ^ N.of_nat n)%N.
Proof.
  revert x; induction n as [|n IH]; intros x.
  - cbn [Nat.add to_bits app]. change (N.of_nat 0) with 0%N. now rewrite N.pow_0_r, N.div_1_r.
  - cbn [Nat.add to_bits app]. f_equal. rewrite IH. f_equal. f_equal.
    rewrite Nat2N.inj_succ, N.pow_succ_r', N.div2_div.
    assert (H2 : (2 ^ N.of_nat n <> 0)%N) by (apply N.pow_nonzero; lia).
    rewrite N.div_div by lia. reflexivity.
Qed.

(* the first n bits of a wider view are the narrower view *)
Lemma firstn_to_bits n m x : n <= m -> firstn n (to_bits m x) = to_bits n x.
Proof.
  intros H. replace m with (n + (m - n)) by lia. rewrite to_bits_add.
  rewrite firstn_app, to_bits_length, Nat.sub_diag, firstn_O, app_nil_r.
  rewrite firstn_all2; auto. rewrite to_bits_length; lia.
Qed.

Lemma to_bits_of_bits_pad l n :
  to_bits (length l + n) (of_bits l) = l ++ repeat false n.
Proof.
  apply of_bits_inj.
  - rewrite to_bits_length, app_length, repeat_length; reflexivity.
  - rewrite of_bits_app_zeros, to_bits_small; auto.
    eapply N.lt_le_trans; [apply of_bits_bound|].
    apply N.pow_le_mono_r; lia.
Qed.

(* ------------------------------------------------------------------ *)
(* Uniform chunks: chunks k l = bitvec's chunks(k) (= chunks_exact(k) on multiples of k) *)

Fixpoint chunks_aux (A : Type) (k fuel : nat) (l : list A) : list (list A) :=
  match fuel with
  | O => []
  | S f => match l with
           | [] => []
           | _ => firstn k l :: chunks_aux k f (skipn k l)
           end
  end.
Definition chunks (A : Type) (k : nat) (l : list A) := chunks_aux k (length l) l.

Definition uniform (A : Type) (k : nat) (cs : list (list A)) :=
  Forall (fun c => length c = k) cs.

Lemma concat_uniform_length A k (cs : list (list A)) :
  uniform k cs -> length (concat cs) = k * length cs.
Proof. induction 1; simpl; auto. rewrite app_length; lia. Qed.

Lemma chunks_aux_concat A k (cs : list (list A)) fuel :
  0 < k -> uniform k cs -> length cs <= fuel -> chunks_aux k fuel (concat cs) = cs.
Proof.
  intros Hk. revert fuel. induction cs as [|c cs IH]; intros fuel Hu Hf.
  - destruct fuel; reflexivity.
  - inversion Hu as [|? ? Hc Hu']; subst.
    destruct fuel as [|fuel]; [simpl in Hf; lia|].
    cbn [concat chunks_aux].
    destruct (c ++ concat cs) eqn:E.
    + apply app_eq_nil in E. destruct E as [E _]. subst c. simpl in Hk. lia.
    + rewrite <- E. rewrite firstn_app, firstn_all, Nat.sub_diag, firstn_O, app_nil_r.
      rewrite skipn_app, skipn_all, Nat.sub_diag, skipn_O. cbn [app].
      f_equal. apply IH; auto. simpl in Hf; lia.
Qed.

Lemma chunks_concat A k (cs : list (list A)) :
  0 < k -> uniform k cs -> chunks k (concat cs) = cs.
Proof.
  intros Hk Hu. unfold chunks. apply chunks_aux_concat; auto.
  rewrite (concat_uniform_length Hu). nia.
Qed.

(* every list whose length is a multiple of k is the concatenation of uniform chunks *)
Lemma split_uniform A k n (l : list A) :
  0 < k -> length l = k * n ->
  exists cs, l = concat cs /\ uniform k cs /\ length cs = n.
Proof.
  intros Hk. revert l. induction n as [|n IH]; intros l Hl.
  - exists []. rewrite Nat.mul_0_r in Hl. destruct l; [|discriminate].
    repeat split; constructor.
  - destruct (IH (skipn k l)) as [cs [E [U L]]].
    { rewrite skipn_length. lia. }
    exists (firstn k l :: cs). cbn [concat]. rewrite <- E, firstn_skipn.
    repeat split; [|simpl; lia].
    constructor; auto. rewrite firstn_length. lia.
Qed.

Lemma chunks_spec A k n (l : list A) :
  0 < k -> length l = k * n ->
  concat (chunks k l) = l /\ uniform k (chunks k l) /\ length (chunks k l) = n.
Proof.
  intros Hk Hl. destruct (@split_uniform _ k n l Hk Hl) as [cs [E [U L]]].
  subst l. rewrite chunks_concat; auto.
Qed.

Lemma skipn_concat_uniform A k (cs : list (list A)) a :
  uniform k cs -> skipn (k * a) (concat cs) = concat (skipn a cs).
Proof.
  revert a. induction cs as [|c cs IH]; intros a Hu.
  - now rewrite !skipn_nil.
  - inversion Hu; subst. destruct a as [|a].
    + now rewrite Nat.mul_0_r.
    + cbn [concat skipn]. rewrite skipn_app.
      replace (length c * S a) with (length c + length c * a) by lia.
      rewrite (skipn_all2 c) by lia. cbn [app].
      replace (length c + length c * a - length c) with (length c * a) by lia. auto.
Qed.

Lemma firstn_concat_uniform A k (cs : list (list A)) a :
  uniform k cs -> firstn (k * a) (concat cs) = concat (firstn a cs).
Proof.
  revert a. induction cs as [|c cs IH]; intros a Hu.
  - now rewrite !firstn_nil.
  - inversion Hu; subst. destruct a as [|a].
    + now rewrite Nat.mul_0_r.
    + cbn [concat firstn]. rewrite firstn_app.
      replace (length c * S a) with (length c + length c * a) by lia.
      rewrite (firstn_all2 c) by lia. f_equal.
      replace (length c + length c * a - length c) with (length c * a) by lia. auto.
Qed.

Lemma rev_concat A (cs : list (list A)) :
  rev (concat cs) = concat (map (@rev A) (rev cs)).
Proof.
  induction cs as [|c cs IH]; simpl; auto.
  rewrite rev_app_distr, IH, map_app, concat_app. simpl. now rewrite app_nil_r.
Qed.

Lemma uniform_map_rev A k (cs : list (list A)) :
  uniform k cs -> uniform k (map (@rev A) cs).
Proof. induction 1; simpl; constructor; auto. now rewrite rev_length. Qed.

Lemma uniform_rev A k (cs : list (list A)) : uniform k cs -> uniform k (rev cs).
Proof. unfold uniform. intros. apply Forall_rev; auto. Qed.

Lemma uniform_app A k (a b : list (list A)) :
  uniform k a -> uniform k b -> uniform k (a ++ b).
Proof. unfold uniform. intros. apply Forall_app; auto. Qed.

Lemma uniform_firstn A k n (cs : list (list A)) : uniform k cs -> uniform k (firstn n cs).
Proof.
  unfold uniform. revert n. induction cs; intros [|n] H; simpl; auto.
  inversion H; subst. constructor; auto.
Qed.

Lemma uniform_skipn A k n (cs : list (list A)) : uniform k cs -> uniform k (skipn n cs).
Proof.
  unfold uniform. revert n. induction cs; intros [|n] H; simpl; auto.
  inversion H; subst. auto.
Qed.

Lemma uniform_map A B k k' (f : list A -> list B) (cs : list (list A)) :
  (forall c, length c = k -> length (f c) = k') ->
  uniform k cs -> uniform k' (map f cs).
Proof. intros Hf. induction 1; simpl; constructor; auto. Qed.

(* The in-place symbol reversal of the code: reverse all bits, then reverse each chunk back.
   (bv.reverse(); for chunk in bv.rchunks_exact_mut(BITS) { chunk.reverse() })
   On a length that is a multiple of k, rchunks_exact visits the same chunks as chunks. *)
Definition rev_syms_bits (k : nat) (l : bits) : bits :=
  concat (map (@rev bool) (chunks k (rev l))).

Theorem rev_syms_bits_spec k (cs : list bits) :
  0 < k -> uniform k cs -> rev_syms_bits k (concat cs) = concat (rev cs).
Proof.
  intros Hk Hu. unfold rev_syms_bits. rewrite rev_concat.
  rewrite chunks_concat; auto using uniform_map_rev, uniform_rev.
  rewrite map_map. f_equal.
  rewrite (map_ext _ (fun x => x)) by (intros; apply rev_involutive). apply map_id.
Qed.

(* map over chunks then concat *)
Definition map_chunks (k : nat) (f : bits -> bits) (l : bits) : bits :=
  concat (map f (chunks k l)).

Lemma map_chunks_concat k f (cs : list bits) :
  0 < k -> uniform k cs -> map_chunks k f (concat cs) = concat (map f cs).
Proof. intros. unfold map_chunks. rewrite chunks_concat; auto. Qed.

(* codes of a bit list: the raw value of each chunk *)
Definition codes (k : nat) (l : bits) : list N := map of_bits (chunks k l).
Definition encode (k : nat) (xs : list N) : bits := concat (map (to_bits k) xs).

Lemma uniform_encode k xs : uniform k (map (to_bits k) xs).
Proof. induction xs; simpl; constructor; auto. apply to_bits_length. Qed.

Lemma encode_length k xs : length (encode k xs) = k * length xs.
Proof.
  unfold encode. rewrite (concat_uniform_length (uniform_encode k xs)), map_length. reflexivity.
Qed.

Definition small (k : nat) (x : N) : Prop := (x < 2 ^ N.of_nat k)%N.

Lemma codes_encode k xs : 0 < k -> Forall (small k) xs -> codes k (encode k xs) = xs.
Proof.
  intros Hk Hs. unfold codes, encode. rewrite chunks_concat; auto using uniform_encode.
  rewrite map_map. rewrite (map_ext_in _ (fun x => x)); [apply map_id|].
  intros x Hx. apply to_bits_small. rewrite Forall_forall in Hs. apply Hs; exact Hx.
Qed.

Lemma encode_codes k n l : 0 < k -> length l = k * n -> encode k (codes k l) = l.
Proof.
  intros Hk Hl. destruct (@chunks_spec _ k n l Hk Hl) as [E [U _]].
  unfold encode, codes. rewrite map_map.
  rewrite <- E at 2. f_equal.
  rewrite (map_ext_in _ (fun x => x)); [apply map_id|]. intros c Hc.
  unfold uniform in U. rewrite Forall_forall in U.
  rewrite <- (U c Hc). apply to_bits_of_bits.
Qed.

Lemma codes_small k n l : 0 < k -> length l = k * n -> Forall (small k) (codes k l).
Proof.
  intros Hk Hl. destruct (@chunks_spec _ k n l Hk Hl) as [_ [U _]].
  unfold codes. apply Forall_forall. intros x Hx. apply in_map_iff in Hx.
  destruct Hx as [c [<- Hc]]. unfold uniform in U. rewrite Forall_forall in U.
  unfold small. rewrite <- (U c Hc). apply of_bits_bound.
Qed.

Lemma codes_length k n l : 0 < k -> length l = k * n -> length (codes k l) = n.
Proof.
  intros Hk Hl. unfold codes. rewrite map_length. apply (@chunks_spec _ k n l Hk Hl).
Qed.

Lemma encode_app k a b : encode k (a ++ b) = encode k a ++ encode k b.
Proof. unfold encode. now rewrite map_app, concat_app. Qed.

Lemma encode_rev k xs : 0 < k -> rev_syms_bits k (encode k xs) = encode k (rev xs).
Proof.
  intros Hk. unfold encode. rewrite rev_syms_bits_spec; auto using uniform_encode.
  now rewrite map_rev.
Qed.

Lemma encode_firstn k xs a : firstn (k * a) (encode k xs) = encode k (firstn a xs).
Proof.
  unfold encode. rewrite firstn_concat_uniform; auto using uniform_encode.
  now rewrite firstn_map.
Qed.

Lemma skipn_map A B (f : A -> B) n l : skipn n (map f l) = map f (skipn n l).
Proof. revert n; induction l; intros [|n]; simpl; auto. Qed.

Lemma encode_skipn k xs a : skipn (k * a) (encode k xs) = encode k (skipn a xs).
Proof.
  unfold encode. rewrite skipn_concat_uniform; auto using uniform_encode.
  now rewrite skipn_map.
Qed.

Lemma encode_inj k xs ys :
  0 < k -> Forall (small k) xs -> Forall (small k) ys -> encode k xs = encode k ys -> xs = ys.
Proof.
  intros Hk Hx Hy E. rewrite <- (codes_encode Hk Hx), <- (codes_encode Hk Hy), E. reflexivity.
Qed.

(* numeric value of an encoded sequence: little-endian digits in base 2^k *)
Fixpoint pack (B : N) (xs : list N) : N :=
  match xs with [] => 0%N | x :: t => (x + B * pack B t)%N end.

Lemma of_bits_encode k xs :
  Forall (small k) xs -> of_bits (encode k xs) = pack (2 ^ N.of_nat k) xs.
Proof.
  induction 1 as [|x xs Hx Hxs IH]; cbn [encode map concat pack of_bits]; auto.
  rewrite of_bits_app, to_bits_length, to_bits_small by exact Hx.
  unfold encode in IH. rewrite IH. reflexivity.
Qed.
