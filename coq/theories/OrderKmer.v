(* OrderKmer.v — k-mer order (numeric order of the storage integer) is colex; sequences agree. *)
From Coq Require Import List NArith Bool Arith.
From BioSeq Require Import Bits Codec Spec SeqModel SeqProofs KmerModel KmerProofs OrderProofs.
Import ListNotations.

Theorem kmer_order_colex (C : codec) (xs ys : list N) :
  length xs = length ys -> Forall (smallc C) xs -> Forall (smallc C) ys ->
  (kval C xs ?= kval C ys)%N = colex xs ys.
Proof.
  intros Hl Hx Hy. rewrite !kval_pack by assumption. apply pack_colex; assumption.
Qed.

Theorem seq_order_like_kmers (C : codec) (xs ys : list N) :
  length xs = length ys -> Forall (smallc C) xs -> Forall (smallc C) ys ->
  seq_cmp (encode (c_bits C) xs) (encode (c_bits C) ys) = (kval C xs ?= kval C ys)%N.
Proof.
  intros Hl Hx Hy. unfold kval. apply seq_cmp_numeric. exact Hl.
Qed.

(* ---------------- the minimum over a sequence's k-mers is its colexicographic minimiser -------- *)
Lemma fold_min_le_init (l : list N) (a : N) : (fold_left N.min l a <= a)%N.
Proof.
  revert a. induction l as [|y l IH]; intros a; cbn [fold_left]; [apply N.le_refl|].
  etransitivity; [apply IH | apply N.le_min_l].
Qed.

Lemma fold_min_le (l : list N) (a x : N) : In x (a :: l) -> (fold_left N.min l a <= x)%N.
Proof.
  revert a. induction l as [|y l IH]; intros a H; cbn [fold_left].
  - destruct H as [->|[]]. apply N.le_refl.
  - destruct H as [->|[->|H]].
    + etransitivity; [apply fold_min_le_init | apply N.le_min_l].
    + etransitivity; [apply fold_min_le_init | apply N.le_min_r].
    + apply IH. right. exact H.
Qed.

Lemma fold_min_in (l : list N) (a : N) : In (fold_left N.min l a) (a :: l).
Proof.
  revert a. induction l as [|y l IH]; intros a; cbn [fold_left]; [left; reflexivity|].
  destruct (IH (N.min a y)) as [E|H].
  - rewrite <- E. destruct (N.min_spec a y) as [[_ ->]|[_ ->]]; [left|right; left]; reflexivity.
  - right. right. exact H.
Qed.

Theorem minimiser_is_colex_least (C : codec) (w : list N) (ws : list (list N)) :
  Forall (fun v => length v = length w /\ Forall (smallc C) v) (w :: ws) ->
  exists m, In m (w :: ws) /\
            kval C m = fold_left N.min (map (kval C) ws) (kval C w) /\
            forall v, In v (w :: ws) -> colex m v <> Gt.
Proof.
  intros Hall. rewrite Forall_forall in Hall.
  pose proof (fold_min_in (map (kval C) ws) (kval C w)) as Hin.
  change (kval C w :: map (kval C) ws) with (map (kval C) (w :: ws)) in Hin.
  apply in_map_iff in Hin. destruct Hin as [m [Em Hm]].
  exists m. split; [exact Hm|]. split; [exact Em|].
  intros v Hv.
  destruct (Hall m Hm) as [Lm Sm]. destruct (Hall v Hv) as [Lv Sv].
  rewrite <- (kmer_order_colex C m v) by (try assumption; congruence).
  rewrite Em. apply N.compare_le_iff.
  change (fold_left N.min (map (kval C) ws) (kval C w) <= kval C v)%N.
  apply fold_min_le.
  change (kval C w :: map (kval C) ws) with (map (kval C) (w :: ws)).
  apply in_map. exact Hv.
Qed.
