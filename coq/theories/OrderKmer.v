(* OrderKmer.v — k-mer order (numeric order of the storage integer) is colex; sequences agree. *)
From Coq Require Import List NArith Bool Arith.
From BioSeq Require Import Bits Codec Spec SeqModel SeqProofs KmerModel KmerProofs OrderProofs.
Import ListNotations.

Theorem kmer_order_colex (C : codec) (xs ys : list N) :
  length xs = length ys -> Forall (smallc C) xs -> Forall (smallc C) ys ->
  (kval C xs ?= kval C ys)%N = colex xs ys.
Proof.
  intros Hl Hx Hy. rewrite !kval_pack by assumption. apply pack_colex; assumption.
Qed.

Theorem seq_order_like_kmers (C : codec) (xs ys : list N) :
  length xs = length ys -> Forall (smallc C) xs -> Forall (smallc C) ys ->
  seq_cmp (encode (c_bits C) xs) (encode (c_bits C) ys) = (kval C xs ?= kval C ys)%N.
Proof.
  intros Hl Hx Hy. unfold kval. apply seq_cmp_numeric. exact Hl.
Qed.
