(* Refine.v — the sequence VM refines a machine over plain lists of symbol codes.
   The correspondence check compares the real library with [VM.run] on scripts; this file proves,
   for EVERY script over the core sequence operations (construction, slicing with nested ranges of
   all seven forms, edits, reversal, iteration, windows, chunks, equality, order, hashing, integer
   view), that [VM.step] on packed bit lists produces exactly the observations of [lm_step], an
   interpreter whose registers are lists of symbols and whose operations are the list functions
   the properties are stated with (firstn/skipn/app/rev/nth/colex/pack).  So what is compared with
   the implementation IS the list-of-symbols reference, for all histories, not per operation. *)
From Coq Require Import List Arith NArith Lia Bool.
From BioSeq Require Import Bits Codec Tables Spec SeqModel KmerModel VM SeqProofs SeqProofs2 IterProofs
  OrderProofs History IupacProofs KmerProofs KmerProofs2 Rev2Bit KmerDna.
Import ListNotations.

(* registers, the current k-mer (storage type, symbols) once one has been made, observations *)
Record lstate := { lregs : list (list N); lk : option (N * list N);
                   lct : list (list N * N);   (* custom codon table: codon -> amino, first match wins *)
                   lout : list (list N) }.

Definition ibounds (n : nat) (f : N) (a b : nat) : nat * nat :=
  match f with
  | 0%N => (a, b) | 1%N => (a, b + 1) | 2%N => (0, b) | 3%N => (0, b + 1)
  | 4%N => (a, n) | 5%N => (0, n) | _ => (a, a + 1)
  end.

(* the range forms of seq/index.rs on a list; None = out of bounds (the implementation panics) *)
Definition lindex (xs : list N) (f : N) (a b : nat) : option (list N) :=
  if (6 <? f)%N then None else
  let (st, en) := ibounds (length xs) f a b in
  if (st <=? en) && (en <=? length xs) then Some (sub xs st (en - st)) else None.

Fixpoint lapply (xs : list N) (rs : list (N * N * N)) : option (list N) :=
  match rs with
  | [] => Some xs
  | (f, a, b) :: t =>
      match lindex xs f (N.to_nat a) (N.to_nat b) with
      | Some ys => lapply ys t
      | None => None
      end
  end.

Fixpoint lset_nth {X} (l : list X) (i : nat) (v : X) : option (list X) :=
  match l, i with
  | [], _ => None
  | _ :: t, O => Some (v :: t)
  | x :: t, S j => match lset_nth t j v with Some r => Some (x :: r) | None => None end
  end.

Definition lget (l : lstate) (r : N) : option (list N) := nth_error (lregs l) (N.to_nat r).
Definition lslice (l : lstate) (d : sd) : option (list N) :=
  match d with SD r rs => match lget l r with Some xs => lapply xs rs | None => None end end.
Definition lemit (l : lstate) (o : list N) : lstate :=
  {| lregs := lregs l; lk := lk l; lct := lct l; lout := o :: lout l |}.
Definition lpush (l : lstate) (xs : list N) : lstate :=
  {| lregs := lregs l ++ [xs]; lk := lk l; lct := lct l; lout := lout l |}.
Definition lsetk (l : lstate) (w : N) (ks : list N) : lstate :=
  {| lregs := lregs l; lk := Some (w, ks); lct := lct l; lout := lout l |}.
Definition lsetct (l : lstate) (t : list (list N * N)) : lstate :=
  {| lregs := lregs l; lk := lk l; lct := t; lout := lout l |}.
Definition lset (l : lstate) (r : N) (xs : list N) : option lstate :=
  match lset_nth (lregs l) (N.to_nat r) xs with
  | Some rs => Some {| lregs := rs; lk := lk l; lct := lct l; lout := lout l |}
  | None => None
  end.

Definition lenc (xs : list N) : list N := N.of_nat (length xs) :: xs.
Definition obs_wins (ws : list (list N)) : list N :=
  N.of_nat (length ws) :: concat (map lenc ws).

(* an edit of History.v for each mutator of the VM *)
Definition edit_of (l : lstate) (o : op) : option (N * eop) :=
  match o with
  | OPush r c => Some (r, EPush c)
  | OExtend r cs => Some (r, EExtend cs)
  | OAppend r d => match lslice l d with Some ys => Some (r, EAppend ys) | None => None end
  | OPrepend r d => match lslice l d with Some ys => Some (r, EPrepend ys) | None => None end
  | OInsert r i d =>
      match lslice l d with Some ys => Some (r, EInsert (N.to_nat i) ys) | None => None end
  | ORemove r f a b => Some (r, ERemove f (N.to_nat a) (N.to_nat b))
  | OTruncate r n => Some (r, ETruncate (N.to_nat n))
  | OClear r => Some (r, EClear)
  | _ => None
  end.

Definition edit_args_ok (gb : N -> bool) (e : eop) : bool :=
  match e with
  | EPush c => gb c
  | EExtend cs => forallb gb cs
  | _ => true
  end.

Definition gbC (C : codec) (x : N) : bool := (x <? 2 ^ N.of_nat (c_bits C))%N && canonb C x.

(* parsing on lists of symbols: the symbols, or the first byte that is not a symbol character *)
Fixpoint lparse (C : codec) (bs : list N) : list N + N :=
  match bs with
  | [] => inl []
  | b :: t => match try_ascii C b with
              | None => inr b
              | Some x => match lparse C t with inl r => inl (x :: r) | inr e => inr e end
              end
  end.

Definition ltrim (C : codec) (v : list N) : list N + N :=
  let start := match position C v with Some p => p | None => length v end in
  let rest := skipn start v in
  let stop := match rposition C rest with Some p => start + p + 1 | None => start end in
  lparse C (firstn (stop - start) rest).

(* custom codon tables on lists of symbols (HashMap::from keeps the last value of a repeated key) *)
Fixpoint ldecode_entries (fuel : nat) (l : list N) (acc : list (list N * N)) : list (list N * N) :=
  match fuel with
  | O => acc
  | S f => match l with
           | [] => acc
           | n :: t =>
               let cs := firstn (N.to_nat n) t in
               match skipn (N.to_nat n) t with
               | a :: t' => ldecode_entries f t' ((cs, a) :: acc)
               | [] => acc
               end
           end
  end.
Fixpoint lct_lookup (t : list (list N * N)) (q : list N) : option N :=
  match t with
  | [] => None
  | (k, a) :: r => if list_eqb k q then Some a else lct_lookup r q
  end.
Fixpoint lct_dedupe (t : list (list N * N)) (seen : list (list N)) : list (list N * N) :=
  match t with
  | [] => []
  | (k, a) :: r => if existsb (list_eqb k) seen then lct_dedupe r seen
                   else (k, a) :: lct_dedupe r (k :: seen)
  end.
Definition lct_preimages (t : list (list N * N)) (a : N) : list (list N) :=
  map fst (filter (fun e => N.eqb (snd e) a) (lct_dedupe t [])).

Section LM.
Variable C : codec.            (* the tables of the codec: characters, complement, mask *)
(* the regenerated conversion / translation tables, as in VM.run *)
Variables (conv_i conv_t : N -> res N) (ic tc ac : codec) (stdt : list tres) (stdc : list (N * cres)).
Let Bw := c_bits C.
Let gb := gbC C.

(* a position-wise table map whose results must again be valid symbols *)
Definition lmapsym (f : N -> option N) (xs : list N) : option (list N) :=
  match mapM f xs with
  | Some ys => if forallb gb ys then Some ys else None
  | None => None
  end.
Definition lbitop (f : N -> N -> N) (xs ys : list N) : option (list N) :=
  if length xs =? length ys
  then (let r := map2 f xs ys in if forallb gb r then Some r else None)
  else None.

(* the integer of a k-mer: symbol i is digit i in base 2^BITS (last symbol most significant) *)
Definition kint (ks : list N) : N := pack (2 ^ N.of_nat Bw) ks.
Definition kfits (k : nat) (w : N) : bool := (1 <=? k) && (k * Bw <=? wbits w).
(* TryFrom: K symbols or a length error *)
Definition lk_make (l : lstate) (k : nat) (w : N) (xs : list N) : option lstate :=
  if kfits k w
  then (if length xs =? k then Some (lemit (lsetk l w xs) [0%N]) else Some (lemit l [2%N]))
  else None.
(* the K-mers of a sequence: the integers of its windows of width K, in order *)
Definition lkmers (k : nat) (xs : list N) : list N :=
  map (fun j => kint (sub xs j k)) (seq 0 (length xs + 1 - k)).

(* Standard::to_amino on a codon given as symbols *)
Definition ltoamino (ws : list N) : option N :=
  if (length ws =? 3) && (Bw * 3 <=? 8) then un_bits ac (kint ws) else None.

Definition lm_step (l : lstate) (o : op) : option lstate :=
  match o with
  | OCollect _ cs => if forallb gb cs then Some (lpush l cs) else None
  | OClone r => match lget l r with Some xs => Some (lpush l xs) | None => None end
  | OToOwned d | OFromSlice d =>
      match lslice l d with Some xs => Some (lpush l xs) | None => None end
  | OToRev d => match lslice l d with Some xs => Some (lpush l (rev xs)) | None => None end
  | OPush _ _ | OExtend _ _ | OAppend _ _ | OPrepend _ _ | OInsert _ _ _ | ORemove _ _ _ _
  | OTruncate _ _ | OClear _ =>
      match edit_of l o with
      | Some (r, e) =>
          if edit_args_ok gb e then
            match lget l r with
            | Some xs => match lstep xs e with Some ys => lset l r ys | None => None end
            | None => None
            end
          else None
      | None => None
      end
  | ORev r => match lget l r with Some xs => lset l r (rev xs) | None => None end
  | OLen d =>
      match lslice l d with
      | Some xs => Some (lemit l [N.of_nat (length xs); b2n (length xs =? 0)])
      | None => None
      end
  | OCodes d => match lslice l d with Some xs => Some (lemit l (lenc xs)) | None => None end
  | ORevIter d => match lslice l d with Some xs => Some (lemit l (rev xs)) | None => None end
  | ONth d i =>
      match lslice l d with
      | Some xs => if N.to_nat i <? length xs then Some (lemit l [nth (N.to_nat i) xs 0%N]) else None
      | None => None
      end
  | OGet d i =>
      match lslice l d with
      | Some xs => Some (lemit l (if length xs <=? N.to_nat i then [0%N]
                                  else [1%N; nth (N.to_nat i) xs 0%N]))
      | None => None
      end
  | OWindows d w | OWinVec d w =>
      match lslice l d with
      | Some xs =>
          let w := N.to_nat w in
          if 1 <=? w
          then Some (lemit l (obs_wins (map (fun i => sub xs i w) (seq 0 (length xs + 1 - w)))))
          else None
      | None => None
      end
  | OChunks d w =>
      match lslice l d with
      | Some xs =>
          let w := N.to_nat w in
          if 1 <=? w
          then Some (lemit l (obs_wins (map (fun k => sub xs (k * w) w) (seq 0 (length xs / w)))))
          else None
      | None => None
      end
  | OChain a b =>
      match lslice l a, lslice l b with
      | Some xs, Some ys => Some (lemit l (xs ++ ys))
      | _, _ => None
      end
  | OEq m a b =>
      match lslice l a, lslice l b, lget l (sd_reg a), lget l (sd_reg b) with
      | Some sa, Some sb, Some ra, Some rb =>
          let r := match m with
                   | 2%N | 7%N | 8%N => list_eqb ra rb
                   | 3%N | 4%N => list_eqb ra sb
                   | 5%N | 6%N => list_eqb sa rb
                   | _ => list_eqb sa sb
                   end in
          Some (lemit l [b2n r])
      | _, _, _, _ => None
      end
  | OCmp a b =>
      match lget l a, lget l b with
      | Some x, Some y =>
          if length x =? length y
          then Some (lemit l [cmp2n (colex x y)])
          else None
      | _, _ => None
      end
  | OToUsize d =>
      match lslice l d with
      | Some xs =>
          if Bw * length xs <=? 64
          then (if 1 <=? Bw * length xs
                then Some (lemit l [0%N; pack (2 ^ N.of_nat Bw) xs]) else None)
          else Some (lemit l [3%N])
      | None => None
      end
  | OHashEq a b =>
      match lslice l a, lslice l b with
      | Some xs, Some ys => Some (lemit l [b2n (list_eqb xs ys)])
      | _, _ => None
      end
  | OMapGet r d =>
      match lget l r, lslice l d with
      | Some k, Some q => Some (lemit l [b2n (list_eqb k q)])
      | _, _ => None
      end
  | OAll => Some (lemit l (N.of_nat (length (lregs l)) :: concat (map lenc (lregs l))))
  (* text *)
  | OParse _ bytes =>
      match lparse C bytes with
      | inl xs => Some (lpush (lemit l [0%N]) xs)
      | inr b => Some (lpush (lemit l [1%N; b]) [])
      end
  | OTrim bytes =>
      match ltrim C bytes with
      | inl xs => Some (lpush (lemit l [0%N]) xs)
      | inr b => Some (lpush (lemit l [1%N; b]) [])
      end
  | ODisplay d =>
      match lslice l d with
      | Some xs => match mapM (to_char C) xs with Some t => Some (lemit l t) | None => None end
      | None => None
      end
  | OEqStr a bytes =>
      match lslice l a with
      | Some xs => Some (lemit l [b2n (match lparse C bytes with
                                       | inl ys => list_eqb ys xs
                                       | inr _ => false
                                       end)])
      | None => None
      end
  (* complement, masking: position-wise table maps *)
  | OToComp d =>
      match lslice l d with
      | Some xs => match lmapsym (comp_sym C) xs with Some ys => Some (lpush l ys) | None => None end
      | None => None
      end
  | OToRevComp d =>
      match lslice l d with
      | Some xs => match lmapsym (comp_sym C) xs with
                   | Some ys => Some (lpush l (rev ys)) | None => None end
      | None => None
      end
  | OToMask r =>
      match lget l r with
      | Some xs => match lmapsym (mask_sym C) xs with Some ys => Some (lpush l ys) | None => None end
      | None => None
      end
  | OToUnmask r =>
      match lget l r with
      | Some xs => match lmapsym (unmask_sym C) xs with Some ys => Some (lpush l ys) | None => None end
      | None => None
      end
  | OComp r =>
      match lget l r with
      | Some xs => match lmapsym (comp_sym C) xs with Some ys => lset l r ys | None => None end
      | None => None
      end
  | ORevComp r =>
      match lget l r with
      | Some xs => match lmapsym (comp_sym C) xs with Some ys => lset l r (rev ys) | None => None end
      | None => None
      end
  | OMask r =>
      match lget l r with
      | Some xs => match lmapsym (mask_sym C) xs with Some ys => lset l r ys | None => None end
      | None => None
      end
  | OUnmask r =>
      match lget l r with
      | Some xs => match lmapsym (unmask_sym C) xs with Some ys => lset l r ys | None => None end
      | None => None
      end
  (* set operations: position-wise land / lor of equal-length operands *)
  | OAnd a b =>
      match lslice l a, lslice l b with
      | Some xs, Some ys => match lbitop N.land xs ys with Some r => Some (lpush l r) | None => None end
      | _, _ => None
      end
  | OOr a b =>
      match lslice l a, lslice l b with
      | Some xs, Some ys => match lbitop N.lor xs ys with Some r => Some (lpush l r) | None => None end
      | _, _ => None
      end
  | OBitAnd a b =>
      match lget l a, lget l b with
      | Some xs, Some ys => match lbitop N.land xs ys with Some r => Some (lpush l r) | None => None end
      | _, _ => None
      end
  | OBitOr a b =>
      match lget l a, lget l b with
      | Some xs, Some ys => match lbitop N.lor xs ys with Some r => Some (lpush l r) | None => None end
      | _, _ => None
      end
  | OContains m a b =>
      match (match m with 1%N => lget l (sd_reg a) | _ => lslice l a end), lslice l b with
      | Some ps, Some qs =>
          Some (lemit l [b2n ((length qs =? length ps) && list_eqb (map2 N.land ps qs) qs)])
      | _, _ => None
      end
  (* copies that must not change anything *)
  | OSerde _ r => match lget l r with Some xs => Some (lpush (lemit l [0%N]) xs) | None => None end
  | OFromBv _ cs => if forallb gb cs then Some (lpush l cs) else None
  | OIntoRaw r => match lget l r with Some xs => Some (lemit l (lenc xs)) | None => None end
  (* ---- k-mers: a k-mer is its list of K symbols; its integer is [kint] ---- *)
  | KFrom k w d =>
      match lslice l d with
      | Some xs => lk_make l (N.to_nat k) w xs
      | None => None
      end
  | KFromSeq k w r =>
      match lget l r with
      | Some xs => lk_make l (N.to_nat k) w xs
      | None => None
      end
  | KStr k w bytes =>
      if kfits (N.to_nat k) w then
        if negb (length bytes =? N.to_nat k) then Some (lemit l [2%N])
        else match lparse C bytes with
             | inr _ => Some (lemit l [1%N])
             | inl xs => lk_make l (N.to_nat k) w xs
             end
      else None
  | KUnsafe k w d =>
      match lslice l d with
      | Some xs => if kfits (N.to_nat k) w && (length xs =? N.to_nat k)
                   then Some (lsetk l w xs) else None
      | None => None
      end
  | KMers k w d =>
      match lslice l d with
      | Some xs => if kfits (N.to_nat k) w
                   then (let v := lkmers (N.to_nat k) xs in Some (lemit l (N.of_nat (length v) :: v)))
                   else None
      | None => None
      end
  | KMin k w d =>
      match lslice l d with
      | Some xs => if kfits (N.to_nat k) w
                   then Some (lemit l (match lkmers (N.to_nat k) xs with
                                       | [] => [0%N]
                                       | x :: r => [1%N; fold_left N.min r x; fold_left N.max r x]
                                       end))
                   else None
      | None => None
      end
  | KObs =>
      match lk l with
      | Some (w, ks) =>
          match mapM (to_char C) ks with
          | Some d => Some (lemit l (lo64 (kint ks) :: hi64 (kint ks) :: N.of_nat (length ks) :: d))
          | None => None
          end
      | None => None
      end
  | KRotl n =>
      match lk l with
      | Some (w, ks) =>
          Some (lsetk l w (lrotl (N.to_nat (n mod N.of_nat (length ks))) ks))
      | None => None
      end
  | KRotr n =>
      match lk l with
      | Some (w, ks) =>
          Some (lsetk l w (lrotr (N.to_nat (n mod N.of_nat (length ks))) ks))
      | None => None
      end
  | KPushl c =>
      match lk l with
      | Some (w, ks) => if gb c then Some (lsetk l w (c :: firstn (length ks - 1) ks)) else None
      | None => None
      end
  | KPushr c =>
      match lk l with
      | Some (w, ks) => if gb c then Some (lsetk l w (skipn 1 ks ++ [c])) else None
      | None => None
      end
  | KEq _ d | KHashEq d =>
      match lk l, lslice l d with
      | Some (w, ks), Some ys => Some (lemit l [b2n (list_eqb ys ks)])
      | _, _ => None
      end
  | KEqSeq r =>
      match lk l, lget l r with
      | Some (w, ks), Some ys => Some (lemit l [b2n (list_eqb ys ks)])
      | _, _ => None
      end
  | KEqStr bytes =>
      match lk l with
      | Some (w, ks) =>
          match mapM (to_char C) ks with
          | Some d => Some (lemit l [b2n (list_eqb d bytes)])
          | None => None
          end
      | None => None
      end
  | KCmp lo hi =>
      match lk l with
      | Some (w, ks) =>
          let y := ((lo + 2 ^ 64 * hi) mod 2 ^ N.of_nat (wbits w))%N in
          let c := cmp2n (N.compare (kint ks) y) in
          Some (lemit l [c; c; b2n (N.eqb (kint ks) y)])
      | None => None
      end
  | KSerde _ => Some (lemit l [0%N])
  | KDeref | KAsRef =>
      match lk l with Some (w, ks) => Some (lemit l (lenc ks)) | None => None end
  | KToSeq => match lk l with Some (w, ks) => Some (lpush l ks) | None => None end
  | KRev | KToRev =>
      match lk l with
      | Some (w, ks) => if negb (Bw =? 2) || (wbits w =? 64) then Some (lsetk l w (rev ks)) else None
      | None => None
      end
  | KUsize => match lk l with Some (w, ks) => Some (lemit l [kint ks]) | None => None end
  (* a k-mer from its integer: the base-2^BITS digits of a value below 2^(K*BITS) *)
  | KInt k w lo hi =>
      let K := N.to_nat k in
      let v := ((lo + 2 ^ 64 * hi) mod 2 ^ N.of_nat (wbits w))%N in
      if kfits K w && (v <? 2 ^ N.of_nat (K * Bw))%N
      then (let ks := codes Bw (to_bits (K * Bw) v) in
            if forallb gb ks then Some (lsetk l w ks) else None)
      else None
  (* complement of 2-bit k-mers in one word: 3 - x at every position *)
  | KComp | KToComp =>
      match lk l with
      | Some (w, ks) =>
          if (Bw =? 2) && (wbits w =? 64) && forallb gb (map comp2 ks)
          then Some (lsetk l w (map comp2 ks)) else None
      | None => None
      end
  | KRevComp | KToRevComp =>
      match lk l with
      | Some (w, ks) =>
          if (Bw =? 2) && (wbits w =? 64) && forallb gb (map comp2 ks)
          then Some (lsetk l w (rev (map comp2 ks))) else None
      | None => None
      end
  (* word images and integer views of whole sequences *)
  | OFromRaw n ws =>
      if 64 * length ws <? N.to_nat n * Bw then Some (lpush (lemit l [0%N]) [])
      else (let xs := codes Bw (firstn (N.to_nat n * Bw) (words_bits ws)) in
            if forallb gb xs then Some (lpush (lemit l [1%N]) xs) else None)
  | OToU8 d =>
      match lslice l d with
      | Some xs => if (1 <=? Bw * length xs) && (Bw * length xs <=? 8)
                   then Some (lemit l [kint xs]) else None
      | None => None
      end
  | OIntoUsize r =>
      match lget l r with
      | Some xs => if (1 <=? Bw * length xs) && (Bw * length xs <=? 64)
                   then Some (lemit l [kint xs]) else None
      | None => None
      end
  (* a SeqArray holding cs: four views of it, hash / equality with itself and a slice, k-mer
     equality for one-word arrays, IUPAC contains *)
  (* translation: a codon is three symbols; its amino acid is the amino codec's decoding of the
     packed value (DNA), or the regenerated IUPAC table entry *)
  | OXlate m d =>
      match lslice l d with
      | Some xs =>
          match m with
          | 2%N => match ltoamino xs with Some a => Some (lemit l [a]) | None => None end
          | 0%N =>
              match mapM ltoamino (map (fun i => sub xs i 3) (seq 0 (length xs + 1 - 3))) with
              | Some r => Some (lemit l r)
              | None => None
              end
          | 1%N =>
              match mapM ltoamino (map (fun k => sub xs (k * 3) 3) (seq 0 (length xs / 3))) with
              | Some r => Some (lemit l r)
              | None => None
              end
          | _ => None
          end
      | None => None
      end
  | OXlateI d =>
      match lslice l d with
      | Some xs =>
          if negb (length xs =? 3) then Some (lemit l [2%N])
          else Some (lemit l (obs_tres (nth (match xs with
                                              | [c0; c1; c2] => N.to_nat (c0 + 16 * c1 + 256 * c2)
                                              | _ => 0
                                              end) stdt TPanic)))
      | None => None
      end
  | OXCodon a =>
      Some (lemit l (match find (fun p => N.eqb (fst p) a) stdc with
                     | Some (_, COk c) => 0%N :: c
                     | Some (_, CAmbiguous) => [1%N]
                     | Some (_, CInvalid) => [3%N]
                     | _ => [4%N]
                     end))
  (* custom codon tables *)
  | OCtNew flat =>
      let t := ldecode_entries (length flat) flat [] in
      if forallb (fun e => forallb gb (fst e)) t then Some (lsetct l t) else None
  | OCtQ d =>
      match lslice l d with
      | Some q => Some (lemit l (match lct_lookup (lct l) q with Some a => [0%N; a] | None => [2%N] end))
      | None => None
      end
  | OCtR a =>
      Some (lemit l (match lct_preimages (lct l) a with
                     | [] => [3%N]
                     | [k] => 0%N :: lenc k
                     | _ => [1%N]
                     end))
  (* conversion to another codec: the symbol map at every position *)
  | OConv t d =>
      match lslice l d with
      | Some xs =>
          let (f, C') := match t with 0%N => (conv_i, ic) | _ => (conv_t, tc) end in
          if codec_okb C' then
            match mapM f xs with
            | Some ys =>
                if forallb (gbC C') ys then
                  match mapM (to_char C') ys with
                  | Some ds => Some (lemit l (N.of_nat (length ys) :: ys ++ ds))
                  | None => None
                  end
                else None
            | None => None
            end
          else None
      | None => None
      end
  | KView n =>
      match lk l with
      | Some (w, ks) =>
          Some (lemit l (lenc ks ++ [777%N] ++
                         concat (map (fun i => if length ks <=? i then [0%N] else [1%N; nth i ks 0%N])
                                     (seq 0 (N.to_nat n)))))
      | None => None
      end
  | OArr cs d =>
      match lslice l d with
      | Some q =>
          if forallb gb cs then
            let lc := lenc cs in
            let sep := [777%N] in
            let base := lc ++ sep ++ lc ++ sep ++ lc ++ sep ++ lc ++ sep ++
                        [1%N; 1%N; b2n (list_eqb cs q)] in
            let kpart := if length cs * Bw <=? 64 then
                           sep ++ [1%N; 1%N] ++
                           (if length q =? length cs
                            then [b2n (list_eqb q cs); b2n (list_eqb q cs)] else [2%N; 2%N])
                         else [] in
            let cpart := if c_has_mask C then [] else
                         if Bw =? 4
                         then sep ++ [b2n ((length q =? length cs) && list_eqb (map2 N.land cs q) q)]
                         else [] in
            match (if Bw =? 2
                   then match mapM conv_i cs, mapM conv_t cs with
                        | Some x, Some y => Some (sep ++ lenc x ++ sep ++ lenc y)
                        | _, _ => None
                        end
                   else Some []) with
            | Some vpart => Some (lemit l (base ++ kpart ++ cpart ++ vpart))
            | None => None
            end
          else None
      | None => None
      end
  end.

Fixpoint lm_run (l : lstate) (ops : list op) : option lstate :=
  match ops with
  | [] => Some l
  | o :: t => match lm_step l o with Some l' => lm_run l' t | None => None end
  end.

End LM.

(* observations of a sequence over ANOTHER codec (the target of a conversion) *)
Section Target.
Variable C' : codec.
Hypothesis OK' : codec_ok C'.
Lemma target_obs ys :
  forallb (gbC C') ys = true ->
  iter C' (encode (c_bits C') ys) = Some ys /\
  display C' (encode (c_bits C') ys) = mapM (to_char C') ys /\
  slen C' (encode (c_bits C') ys) = length ys.
Proof.
  intros V. rewrite forallb_forall in V.
  assert (Hs : Forall (smallc C') ys).
  { apply Forall_forall. intros x Hx. specialize (V x Hx). unfold gbC in V.
    apply andb_prop in V. destruct V as [V _]. unfold smallc, small. apply N.ltb_lt. exact V. }
  assert (Hc : canonl C' ys).
  { unfold canonl. apply Forall_forall. intros x Hx. specialize (V x Hx). unfold gbC in V.
    apply andb_prop in V. destruct V as [_ V]. apply canonb_spec. exact V. }
  pose proof (iter_spec C' OK' ys Hs Hc) as I. split; [exact I|]. split.
  - unfold display. rewrite I. reflexivity.
  - apply (slen_encode C' OK').
Qed.
End Target.

Section Refines.
Variable C : codec.
Variable dbg : bool.
Hypothesis OK : codec_ok C.
Variables (cvi cvt : N -> res N) (ic tc ac : codec) (stdt : list tres) (stdc : list (N * cres)).
Local Notation B := (c_bits C).

Local Notation gbC := (gbC C).
Definition good (x : N) : Prop := smallc C x /\ canon C x.
Definition vstep := step C dbg cvi cvt ic tc ac stdt stdc.

Definition kabs (st : state) (k : option (N * list N)) : Prop :=
  match k with
  | None => True
  | Some (w, ks) =>
      kk st = N.of_nat (length ks) /\ kw st = w /\ kv st = kval C ks /\
      1 <= length ks /\ length ks * B <= wbits w /\ Forall good ks
  end.

Definition abs (st : state) (l : lstate) : Prop :=
  regs st = map (encode B) (lregs l) /\ out st = lout l /\ Forall (Forall good) (lregs l) /\
  kabs st (lk l) /\
  (ct st = map (fun e => (encode B (fst e), snd e)) (lct l) /\ Forall (fun e => Forall good (fst e)) (lct l)).


(* ---------- helpers on lists ---------- *)
Lemma Forall_firstn' {X} (P : X -> Prop) n (l : list X) : Forall P l -> Forall P (firstn n l).
Proof.
  intros H. rewrite <- (firstn_skipn n l) in H. apply Forall_app in H. tauto.
Qed.
Lemma Forall_skipn' {X} (P : X -> Prop) n (l : list X) : Forall P l -> Forall P (skipn n l).
Proof.
  intros H. rewrite <- (firstn_skipn n l) in H. apply Forall_app in H. tauto.
Qed.
Lemma Forall_sub (P : N -> Prop) xs a w : Forall P xs -> Forall P (sub xs a w).
Proof. intros H. unfold sub. apply Forall_firstn'. apply Forall_skipn'. exact H. Qed.
Lemma Forall_nth_error {X} (P : X -> Prop) (l : list X) n x :
  Forall P l -> nth_error l n = Some x -> P x.
Proof. intros H E. rewrite Forall_forall in H. apply H. eapply nth_error_In. exact E. Qed.

Lemma good_small xs : Forall good xs -> Forall (smallc C) xs.
Proof. apply Forall_impl. intros a [H _]. exact H. Qed.
Lemma good_canon xs : Forall good xs -> canonl C xs.
Proof. unfold canonl. apply Forall_impl. intros a [_ H]. exact H. Qed.

Lemma gbC_good x : gbC x = true -> good x.
Proof.
  unfold gbC, good. intros H. apply andb_prop in H. destruct H as [H1 H2]. split.
  - unfold smallc, small. apply N.ltb_lt. exact H1.
  - apply canonb_spec. exact H2.
Qed.
Lemma gbC_goods xs : forallb gbC xs = true -> Forall good xs.
Proof.
  intros H. rewrite forallb_forall in H. apply Forall_forall. intros x Hx. apply gbC_good. auto.
Qed.

(* ---------- registers and slices ---------- *)
Lemma get_abs st l r xs :
  abs st l -> lget l r = Some xs -> get_reg st r = Some (encode B xs) /\ Forall good xs.
Proof.
  intros [Hr [_ [Hg _]]] E. unfold lget in E. unfold get_reg, nn. rewrite Hr. split.
  - rewrite nth_error_map, E. reflexivity.
  - eapply Forall_nth_error; eassumption.
Qed.

Lemma lindex_sound xs f a b ys :
  lindex xs f a b = Some ys -> index C (encode B xs) f a b = Some (encode B ys).
Proof.
  unfold lindex. destruct (6 <? f)%N eqn:F; [discriminate|]. apply N.ltb_ge in F.
  destruct (index_forms C xs a b) as [E1 [E2 [E3 [E4 [E5 E6]]]]].
  assert (Hf : (f = 0 \/ f = 1 \/ f = 2 \/ f = 3 \/ f = 4 \/ f = 5 \/ f = 6)%N) by lia.
  destruct Hf as [-> | [-> | [-> | [-> | [-> | [-> | ->]]]]]]; cbn [ibounds];
    match goal with
    | |- (if (?s <=? ?e) && (?e <=? _) then _ else _) = _ -> _ =>
        destruct (Nat.leb_spec s e) as [L1|L1]; cbn [andb]; [|discriminate];
        destruct (Nat.leb_spec e (length xs)) as [L2|L2]; [|discriminate];
        intros H; inversion H; subst; clear H
    end; unfold sub.
  - apply (index_range_in C); assumption.
  - rewrite E1. apply (index_range_in C); assumption.
  - rewrite E2. rewrite (index_range_in C) by assumption. reflexivity.
  - rewrite E3. rewrite (index_range_in C) by assumption. reflexivity.
  - rewrite E4 by assumption. apply (index_range_in C); assumption.
  - rewrite E5. rewrite (index_range_in C) by lia. reflexivity.
  - rewrite E6. apply (index_range_in C); assumption.
Qed.

Lemma lindex_good xs f a b ys : Forall good xs -> lindex xs f a b = Some ys -> Forall good ys.
Proof.
  unfold lindex. intros Hg. destruct (6 <? f)%N; [discriminate|].
  destruct (ibounds (length xs) f a b) as [s e].
  destruct ((s <=? e) && (e <=? length xs)); [|discriminate].
  intros H. inversion H. apply Forall_sub. exact Hg.
Qed.

Lemma lapply_sound rs : forall xs ys,
  Forall good xs -> lapply xs rs = Some ys ->
  apply_ranges C (encode B xs) rs = Some (encode B ys) /\ Forall good ys.
Proof.
  induction rs as [|[[f a] b] t IH]; intros xs ys Hg H; cbn [lapply apply_ranges] in *.
  - inversion H; subst. split; [reflexivity|assumption].
  - destruct (lindex xs f (N.to_nat a) (N.to_nat b)) as [zs|] eqn:E; [|discriminate].
    unfold nn. rewrite (lindex_sound _ _ _ _ _ E). cbn [bind].
    apply IH; [eapply lindex_good; eassumption | exact H].
Qed.

Lemma slice_abs st l d xs :
  abs st l -> lslice l d = Some xs -> slice_of C st d = Some (encode B xs) /\ Forall good xs.
Proof.
  intros A E. destruct d as [r rs]. cbn [lslice slice_of] in *.
  destruct (lget l r) as [zs|] eqn:G; [|discriminate].
  destruct (get_abs _ _ _ _ A G) as [G1 G2]. rewrite G1. cbn [bind].
  apply lapply_sound; assumption.
Qed.

Lemma set_nth_map (l : list (list N)) i v rs :
  lset_nth l i v = Some rs ->
  set_nth (map (encode B) l) i (encode B v) = Some (map (encode B) rs).
Proof.
  revert i rs. induction l as [|x l IH]; intros i rs H; cbn [lset_nth] in H; [discriminate|].
  destruct i as [|j]; cbn [map set_nth].
  - inversion H; subst. reflexivity.
  - destruct (lset_nth l j v) as [r|] eqn:E; [|discriminate]. inversion H; subst.
    rewrite (IH _ _ E). reflexivity.
Qed.

Lemma set_nth_good (l : list (list N)) i v rs :
  Forall (Forall good) l -> Forall good v -> lset_nth l i v = Some rs -> Forall (Forall good) rs.
Proof.
  revert i rs. induction l as [|x l IH]; intros i rs Hl Hv H; cbn [lset_nth] in H; [discriminate|].
  inversion Hl as [|? ? Hx Ht]; subst.
  destruct i as [|j].
  - inversion H; subst. constructor; assumption.
  - destruct (lset_nth l j v) as [r|] eqn:E; [|discriminate]. inversion H; subst.
    constructor; [assumption|]. eapply IH; eassumption.
Qed.

Lemma set_abs st l r xs l' :
  abs st l -> Forall good xs -> lset l r xs = Some l' ->
  exists st', set_reg st r (encode B xs) = Some st' /\ abs st' l'.
Proof.
  intros [Hr [Ho [Hg Hk]]] Hx H. unfold lset in H.
  destruct (lset_nth (lregs l) (N.to_nat r) xs) as [rs|] eqn:E; [|discriminate].
  inversion H; subst; clear H. unfold set_reg, nn. rewrite Hr.
  rewrite (set_nth_map _ _ _ _ E). cbn [bind]. eexists. split; [reflexivity|].
  unfold abs. cbn [regs out ct kk kw kv lregs lout lk lct]. split; [reflexivity|]. split; [assumption|].
  split; [eapply set_nth_good; eassumption | exact Hk].
Qed.

Lemma push_abs st l xs : abs st l -> Forall good xs -> abs (push_reg st (encode B xs)) (lpush l xs).
Proof.
  intros [Hr [Ho [Hg Hk]]] Hx. unfold abs, push_reg, lpush. cbn [regs out ct kk kw kv lregs lout lk lct].
  split; [rewrite Hr, map_app; reflexivity|]. split; [assumption|]. split; [|exact Hk].
  apply Forall_app. split; [assumption|]. constructor; [assumption|constructor].
Qed.

Lemma emit_abs st l o : abs st l -> abs (emit st o) (lemit l o).
Proof.
  intros [Hr [Ho [Hg Hk]]]. unfold abs, emit, lemit. cbn [regs out ct kk kw kv lregs lout lk lct].
  split; [assumption|]. split; [now rewrite Ho|]. split; [assumption|exact Hk].
Qed.


(* ---------- observation helpers ---------- *)
Lemma lencodes_enc xs : Forall good xs -> lencodes C (encode B xs) = Some (lenc xs).
Proof.
  intros G. unfold lencodes. rewrite (iter_spec C OK) by (auto using good_small, good_canon).
  cbn [bind]. rewrite (slen_encode C OK). reflexivity.
Qed.

Lemma flat_lencodes_enc ws :
  Forall (Forall good) ws -> flat_lencodes C (map (encode B) ws) = Some (concat (map lenc ws)).
Proof.
  induction ws as [|w ws IH]; intros G; cbn [map flat_lencodes concat]; [reflexivity|].
  inversion G as [|? ? Gw Gt]; subst. rewrite (lencodes_enc _ Gw). cbn [bind].
  rewrite (IH Gt). reflexivity.
Qed.

Lemma eqb_enc xs ys :
  Forall good xs -> Forall good ys -> seq_eqb (encode B xs) (encode B ys) = list_eqb xs ys.
Proof.
  intros Gx Gy. pose proof (eq_iff_same_symbols C OK xs ys (good_small _ Gx) (good_small _ Gy)) as E.
  unfold list_eqb. destruct (list_eq_dec N.eq_dec xs ys) as [e|ne].
  - apply E. exact e.
  - destruct (seq_eqb (encode B xs) (encode B ys)); [|reflexivity].
    exfalso. apply ne. apply E. reflexivity.
Qed.

Lemma hash_enc xs ys :
  Forall good xs -> Forall good ys ->
  list_eqb (hash_feed C (encode B xs)) (hash_feed C (encode B ys)) = list_eqb xs ys.
Proof.
  intros Gx Gy. unfold list_eqb at 1.
  destruct (list_eq_dec N.eq_dec (hash_feed C (encode B xs)) (hash_feed C (encode B ys))) as [e|ne].
  - assert (L : length (encode B xs) = length (encode B ys)).
    { apply (f_equal (@length N)) in e. unfold hash_feed in e.
      rewrite !app_length, !map_length in e. unfold le_bytes8 in e. rewrite !map_length in e. lia. }
    apply (hash_feed_inj C _ _ L) in e.
    rewrite <- (eqb_enc xs ys Gx Gy). unfold seq_eqb. symmetry. apply bits_eqb_eq. exact e.
  - unfold list_eqb. destruct (list_eq_dec N.eq_dec xs ys) as [e|]; [|reflexivity].
    exfalso. apply ne. now rewrite e.
Qed.

Lemma good_nth xs i : Forall good xs -> i < length xs -> good (nth i xs 0%N).
Proof. intros G Hi. rewrite Forall_forall in G. apply G. apply nth_In. exact Hi. Qed.

Lemma wins_obs (f : nat -> list N) (idx : list nat) :
  (forall i, Forall good (f i)) ->
  obs_collected C (Done (map (fun i => encode B (f i)) idx)) = Some (obs_wins (map f idx)).
Proof.
  intros G. cbn [obs_collected]. rewrite <- (map_map f (encode B)).
  rewrite flat_lencodes_enc.
  - cbn [bind]. unfold ret, obs_wins, nat2n. now rewrite !map_length.
  - apply Forall_forall. intros w Hw. apply in_map_iff in Hw. destruct Hw as [i [<- _]]. apply G.
Qed.



(* ---------- text ---------- *)
Lemma lparse_sound bs :
  parse C bs = match lparse C bs with inl xs => inl (encode B xs) | inr b => inr b end.
Proof.
  induction bs as [|b t IH]; cbn [parse lparse]; [reflexivity|].
  destruct (try_ascii C b) as [x|]; [|reflexivity]. rewrite IH.
  destruct (lparse C t) as [r|e]; reflexivity.
Qed.

Lemma lparse_ascii bs :
  ascii_syms C bs = match lparse C bs with inl xs => Some xs | inr _ => None end.
Proof.
  unfold ascii_syms. induction bs as [|b t IH]; cbn [mapM lparse]; [reflexivity|].
  destruct (try_ascii C b) as [x|]; [|reflexivity]. cbn [bind]. rewrite IH.
  destruct (lparse C t) as [r|e]; reflexivity.
Qed.

Lemma lparse_good bs xs : lparse C bs = inl xs -> Forall good xs.
Proof.
  intros H. pose proof (lparse_ascii bs) as E. rewrite H in E.
  pose proof (ascii_syms_items C OK bs xs E) as I.
  pose proof (items_small C OK xs I) as S1. pose proof (items_canon C OK xs I) as S2.
  unfold canonl in S2. rewrite Forall_forall in *. intros x Hx. split; auto.
Qed.

Lemma ltrim_sound v :
  trim C v = match ltrim C v with inl xs => inl (encode B xs) | inr b => inr b end.
Proof. unfold trim, ltrim. apply lparse_sound. Qed.

(* ---------- position-wise table maps ---------- *)
Lemma mapM_some_map {X Y} (f : X -> res Y) (d : Y) l r :
  mapM f l = Some r ->
  r = map (fun x => match f x with Some y => y | None => d end) l /\
  (forall x, In x l -> f x = Some (match f x with Some y => y | None => d end)).
Proof.
  revert r. induction l as [|x l IH]; intros r H; cbn [mapM] in H.
  - inversion H. split; [reflexivity|]. intros ? [].
  - destruct (f x) as [y|] eqn:E; [|discriminate]. cbn [bind] in H.
    destruct (mapM f l) as [r'|]; [|discriminate]. cbn [bind ret] in H. inversion H; subst.
    destruct (IH r' eq_refl) as [I1 I2]. split.
    + cbn [map]. rewrite E. f_equal. exact I1.
    + intros z [<-|Hz]; [rewrite E; reflexivity|apply I2; exact Hz].
Qed.

Lemma lmapsym_sound f xs ys :
  Forall good xs -> lmapsym C f xs = Some ys ->
  map_syms C f (encode B xs) = Some (encode B ys) /\ Forall good ys.
Proof.
  intros G H. unfold lmapsym in H. destruct (mapM f xs) as [r|] eqn:M; [|discriminate].
  destruct (forallb gbC r) eqn:V; [|discriminate]. inversion H; subst.
  destruct (mapM_some_map f 0%N xs ys M) as [E1 E2]. split; [|apply gbC_goods; exact V].
  rewrite E1. apply (map_syms_spec C OK); auto using good_small, good_canon.
Qed.

Lemma lbitop_and xs ys r :
  lbitop C N.land xs ys = Some r ->
  and_assign (encode B xs) (encode B ys) = encode B r /\ Forall good r.
Proof.
  unfold lbitop. destruct (Nat.eqb_spec (length xs) (length ys)) as [L|]; [|discriminate].
  destruct (forallb gbC (map2 N.land xs ys)) eqn:V; [|discriminate]. intros H. inversion H; subst.
  split; [apply (bitand_positionwise C OK); exact L | apply gbC_goods; exact V].
Qed.
Lemma lbitop_or xs ys r :
  lbitop C N.lor xs ys = Some r ->
  or_assign (encode B xs) (encode B ys) = encode B r /\ Forall good r.
Proof.
  unfold lbitop. destruct (Nat.eqb_spec (length xs) (length ys)) as [L|]; [|discriminate].
  destruct (forallb gbC (map2 N.lor xs ys)) eqn:V; [|discriminate]. intros H. inversion H; subst.
  split; [apply (bitor_positionwise C OK); exact L | apply gbC_goods; exact V].
Qed.

Lemma display_enc xs : Forall good xs -> display C (encode B xs) = mapM (to_char C) xs.
Proof.
  intros G. unfold display. rewrite (iter_spec C OK) by (auto using good_small, good_canon).
  reflexivity.
Qed.

Lemma intoraw_enc xs :
  Forall good xs ->
  nat2n (slen C (encode B xs)) :: codes B (firstn (slen C (encode B xs) * B) (into_raw_live (encode B xs)))
  = lenc xs.
Proof.
  intros G. rewrite (slen_encode C OK). unfold into_raw_live, lenc, nat2n. f_equal.
  rewrite Nat.mul_comm, <- length_encode, firstn_all.
  apply codes_encode; [apply (Bpos C OK)|apply good_small; exact G].
Qed.

Lemma words_bits_length ws : length (words_bits ws) = 64 * length ws.
Proof.
  unfold words_bits. rewrite (concat_uniform_length (k := 64)).
  - now rewrite map_length.
  - induction ws; cbn [map]; constructor; [apply to_bits_length | assumption].
Qed.

(* ---------- k-mers ---------- *)
Lemma kfits_spec k w : kfits C k w = true -> 1 <= k /\ k * B <= wbits w.
Proof.
  unfold kfits. intros H. apply andb_prop in H. destruct H as [H1 H2].
  apply Nat.leb_le in H1. apply Nat.leb_le in H2. split; assumption.
Qed.

Lemma kint_kval ks : Forall good ks -> kval C ks = kint C ks.
Proof. intros G. unfold kint. apply kval_pack. apply good_small. exact G. Qed.

Lemma setk_abs st l n w ks :
  abs st l -> Forall good ks -> 1 <= length ks -> length ks * B <= wbits w ->
  n = N.of_nat (length ks) ->
  abs (set_k st n w (kval C ks)) (lsetk l w ks).
Proof.
  intros [Hr [Ho [Hg [_ [Hc1 Hc2]]]]] G L1 L2 ->. unfold abs, set_k, lsetk.
  cbn [regs out ct lregs lout lk lct kabs kk kw kv].
  repeat split; assumption.
Qed.

Lemma lkmers_kval k xs :
  Forall good xs ->
  map (fun j => kval C (sub xs j k)) (seq 0 (length xs + 1 - k)) = lkmers C k xs.
Proof.
  intros G. unfold lkmers. apply map_ext. intros j. apply kint_kval. apply Forall_sub. exact G.
Qed.

Lemma list_eqb_sym (a b : list N) : list_eqb a b = list_eqb b a.
Proof.
  unfold list_eqb. destruct (list_eq_dec N.eq_dec a b), (list_eq_dec N.eq_dec b a);
    try reflexivity; congruence.
Qed.

Lemma lrotl_len {X} n (l : list X) : length (lrotl n l) = length l.
Proof.
  unfold lrotl. rewrite app_length, skipn_length, firstn_length. lia.
Qed.

Lemma lrotl_good n ks : Forall good ks -> Forall good (lrotl n ks).
Proof.
  intros G. unfold lrotl. apply Forall_app. split; [apply Forall_skipn'|apply Forall_firstn']; exact G.
Qed.

(* TryFrom on a slice holding xs *)
Lemma make_sound st l k w xs l' :
  abs st l -> Forall good xs -> lk_make C l (N.to_nat k) w xs = Some l' ->
  exists st',
    (do r <- try_from C dbg (N.to_nat k) (wbits w) (encode B xs);
     match r with
     | inl x => ret (emit (set_k st k w x) [0%N])
     | inr e => ret (emit st (kerr_obs e))
     end) = Some st' /\ abs st' l'.
Proof.
  intros A G H. unfold lk_make in H. destruct (kfits C (N.to_nat k) w) eqn:F; [|discriminate].
  destruct (kfits_spec _ _ F) as [F1 F2].
  rewrite (try_from_spec C dbg OK _ _ F1 F2).
  destruct (Nat.eqb_spec (length xs) (N.to_nat k)) as [L|L]; cbn [bind kerr_obs];
    inversion H; subst; clear H; (eexists; split; [reflexivity|]); apply emit_abs.
  - apply setk_abs; try assumption; lia.
  - exact A.
Qed.

(* ---------- translation ---------- *)
Lemma ltoamino_sound ws :
  Forall good ws -> to_amino C ac (encode B ws) = ltoamino C ac ws.
Proof.
  intros G. unfold to_amino, ltoamino. rewrite (slen_encode C OK).
  destruct (length ws =? 3) eqn:L; cbn [andb assert bind]; [|reflexivity].
  apply Nat.eqb_eq in L. unfold to_u8. rewrite length_encode, L.
  assert (P : (1 <=? B * 3) = true) by (apply Nat.leb_le; pose proof (Bpos C OK); lia).
  rewrite P. cbn [andb]. destruct (B * 3 <=? 8); cbn [assert bind]; [|reflexivity].
  unfold ret. cbn [bind]. unfold kint. rewrite of_bits_encode by (apply good_small; exact G).
  reflexivity.
Qed.

Lemma mapM_toamino ws :
  Forall (Forall good) ws ->
  mapM (to_amino C ac) (map (encode B) ws) = mapM (ltoamino C ac) ws.
Proof.
  induction ws as [|w ws IH]; intros G; cbn [map mapM]; [reflexivity|].
  inversion G as [|? ? Gw Gt]; subst. rewrite (ltoamino_sound _ Gw), (IH Gt). reflexivity.
Qed.

Lemma subs_good xs (idx : list nat) w : Forall good xs -> Forall (Forall good) (map (fun i => sub xs i w) idx).
Proof.
  intros G. apply Forall_forall. intros y Hy. apply in_map_iff in Hy. destruct Hy as [i [<- _]].
  apply Forall_sub. exact G.
Qed.

(* ---------- custom codon tables ---------- *)
Definition enc_entry (e : list N * N) : bits * N := (encode B (fst e), snd e).

Lemma decode_enc fuel : forall l acc,
  decode_entries C fuel l (map enc_entry acc) = map enc_entry (ldecode_entries fuel l acc).
Proof.
  induction fuel as [|f IH]; intros l acc; cbn [decode_entries ldecode_entries]; [reflexivity|].
  destruct l as [|n t]; [reflexivity|]. unfold nn.
  destruct (skipn (N.to_nat n) t) as [|a t']; [reflexivity|].
  change ((encode B (firstn (N.to_nat n) t), a) :: map enc_entry acc)
    with (map enc_entry ((firstn (N.to_nat n) t, a) :: acc)).
  apply IH.
Qed.

Definition keys_good (t : list (list N * N)) : Prop := Forall (fun e => Forall good (fst e)) t.

Lemma keys_goodb t : forallb (fun e => forallb gbC (fst e)) t = true -> keys_good t.
Proof.
  intros H. rewrite forallb_forall in H. apply Forall_forall. intros e He. apply gbC_goods. auto.
Qed.

Lemma lookup_enc t q :
  keys_good t -> Forall good q ->
  ct_lookup (map enc_entry t) (encode B q) = lct_lookup t q.
Proof.
  intros Gt Gq. induction t as [|[k a] r IH]; cbn [map ct_lookup lct_lookup enc_entry fst snd]; [reflexivity|].
  inversion Gt as [|? ? Gk Gr]; subst. cbn [fst] in Gk.
  change (bits_eqb (encode B k) (encode B q)) with (seq_eqb (encode B k) (encode B q)).
  rewrite (eqb_enc k q Gk Gq). destruct (list_eqb k q); [reflexivity|]. apply IH. exact Gr.
Qed.

Lemma existsb_enc k seen :
  Forall good k -> Forall (Forall good) seen ->
  existsb (bits_eqb (encode B k)) (map (encode B) seen) = existsb (list_eqb k) seen.
Proof.
  intros Gk Gs. induction seen as [|x r IH]; cbn [map existsb]; [reflexivity|].
  inversion Gs as [|? ? Gx Gr]; subst.
  change (bits_eqb (encode B k) (encode B x)) with (seq_eqb (encode B k) (encode B x)).
  rewrite (eqb_enc k x Gk Gx), (IH Gr). reflexivity.
Qed.

Lemma dedupe_enc t : forall seen,
  keys_good t -> Forall (Forall good) seen ->
  ct_dedupe (map enc_entry t) (map (encode B) seen) = map enc_entry (lct_dedupe t seen).
Proof.
  induction t as [|[k a] r IH]; intros seen Gt Gs; cbn [map ct_dedupe lct_dedupe enc_entry fst snd];
    [reflexivity|].
  inversion Gt as [|? ? Gk Gr]; subst. cbn [fst] in Gk.
  rewrite (existsb_enc k seen Gk Gs). destruct (existsb (list_eqb k) seen).
  - apply IH; assumption.
  - cbn [map enc_entry fst snd].
    change (encode B k :: map (encode B) seen) with (map (encode B) (k :: seen)).
    rewrite IH; [reflexivity|assumption|constructor; assumption].
Qed.

Lemma dedupe_good t : forall seen, keys_good t -> keys_good (lct_dedupe t seen).
Proof.
  induction t as [|[k a] r IH]; intros seen Gt; cbn [lct_dedupe]; [constructor|].
  inversion Gt as [|? ? Gk Gr]; subst.
  destruct (existsb (list_eqb k) seen); [apply IH; exact Gr|].
  constructor; [exact Gk|apply IH; exact Gr].
Qed.

Lemma filter_enc (p : N -> bool) t :
  filter (fun e => p (snd e)) (map enc_entry t) = map enc_entry (filter (fun e => p (snd e)) t).
Proof.
  induction t as [|[k a] r IH]; cbn [map filter enc_entry fst snd]; [reflexivity|].
  destruct (p a); cbn [map enc_entry fst snd]; rewrite IH; reflexivity.
Qed.

Lemma preimages_enc t a :
  keys_good t ->
  ct_preimages (map enc_entry t) a = map (encode B) (lct_preimages t a) /\
  Forall (Forall good) (lct_preimages t a).
Proof.
  intros Gt. unfold ct_preimages, lct_preimages.
  change (@nil bits) with (map (encode B) []).
  rewrite (dedupe_enc t [] Gt) by constructor.
  rewrite (filter_enc (fun x => N.eqb x a)). rewrite !map_map. split; [reflexivity|].
  pose proof (dedupe_good t [] Gt) as Gd.
  apply Forall_forall. intros k Hk. apply in_map_iff in Hk. destruct Hk as [e [<- He]].
  apply filter_In in He. destruct He as [He _].
  unfold keys_good in Gd. rewrite Forall_forall in Gd. apply Gd. exact He.
Qed.

Lemma setct_abs st l t :
  abs st l -> keys_good t -> abs (set_ct st (map enc_entry t)) (lsetct l t).
Proof.
  intros [Hr [Ho [Hg [Hk _]]]] Gt. unfold abs, set_ct, lsetct.
  cbn [regs out ct kk kw kv lregs lout lk lct].
  repeat split; try assumption.
Qed.

Lemma mapM_get ks idx :
  Forall good ks ->
  mapM (get_sym C (encode B ks)) idx =
  Some (map (fun i => if length ks <=? i then None else Some (nth i ks 0%N)) idx).
Proof.
  intros G. induction idx as [|i idx IH]; cbn [mapM map]; [reflexivity|].
  rewrite (get_sym_spec C OK) by (apply good_small; exact G). rewrite IH.
  destruct (Nat.leb_spec (length ks) i) as [Hi|Hi]; cbn [bind]; [reflexivity|].
  destruct (good_nth ks i G Hi) as [_ Hc]. unfold canon in Hc. rewrite Hc. reflexivity.
Qed.

Ltac slice_in A H :=
  match type of H with
  | context [lslice ?l ?d] =>
      let xs := fresh "xs" in let E := fresh "E" in let S := fresh "S" in let G := fresh "G" in
      destruct (lslice l d) as [xs|] eqn:E; [|try discriminate];
      [destruct (slice_abs _ _ _ _ A E) as [S G]]
  end.
Ltac reg_in A H :=
  match type of H with
  | context [lget ?l ?r] =>
      let xs := fresh "rs" in let E := fresh "E" in let S := fresh "R" in let G := fresh "G" in
      destruct (lget l r) as [xs|] eqn:E; [|try discriminate];
      [destruct (get_abs _ _ _ _ A E) as [S G]]
  end.
Ltac kmer_in A H :=
  match type of H with
  | context [lk ?l] =>
      let w := fresh "w" in let ks := fresh "ks" in let LK := fresh "LK" in
      destruct (lk l) as [[w ks]|] eqn:LK; [|try discriminate];
      [let KA := fresh "KA" in
       pose proof A as [_ [_ [_ [KA _]]]]; rewrite LK in KA; cbn [kabs] in KA;
       let K1 := fresh "K1" in let K2 := fresh "K2" in let K3 := fresh "K3" in
       let K4 := fresh "K4" in let K5 := fresh "K5" in let K6 := fresh "K6" in
       destruct KA as [K1 [K2 [K3 [K4 [K5 K6]]]]];
       rewrite ?K1, ?K2, ?K3; unfold nn; rewrite ?Nat2N.id]
  end.
Ltac done_emit A H :=
  inversion H; subst; clear H; eexists; split; [reflexivity | apply emit_abs; exact A].

Lemma vstep_refines st l o l' :
  abs st l -> lm_step C cvi cvt ic tc ac stdt stdc l o = Some l' -> exists st', vstep st o = Some st' /\ abs st' l'.
Proof.
  intros A H. unfold vstep.
  destruct o; cbn [lm_step edit_of] in H; try discriminate; cbn [step].
  - (* parse *)
    rewrite lparse_sound. destruct (lparse C bytes) as [xs|b] eqn:P; inversion H; subst; clear H.
    + eexists. split; [reflexivity|]. apply push_abs; [apply emit_abs; exact A|].
      eapply lparse_good; exact P.
    + eexists. split; [reflexivity|]. change (@nil bool) with (encode B []).
      apply push_abs; [apply emit_abs; exact A|constructor].
  - (* trim *)
    rewrite ltrim_sound. destruct (ltrim C bytes) as [xs|b] eqn:P; inversion H; subst; clear H.
    + eexists. split; [reflexivity|]. apply push_abs; [apply emit_abs; exact A|].
      unfold ltrim in P. eapply lparse_good; exact P.
    + eexists. split; [reflexivity|]. change (@nil bool) with (encode B []).
      apply push_abs; [apply emit_abs; exact A|constructor].
  - (* collect *)
    destruct (forallb gbC codes) eqn:V; [|discriminate]. inversion H; subst; clear H.
    rewrite collect_spec. eexists. split; [reflexivity|]. apply push_abs; [exact A|].
    apply gbC_goods. exact V.
  - (* clone *)
    reg_in A H. inversion H; subst; clear H. rewrite R. cbn [bind].
    eexists. split; [reflexivity|]. apply push_abs; assumption.
  - (* to_owned *)
    slice_in A H. inversion H; subst; clear H. rewrite S. cbn [bind].
    eexists. split; [reflexivity|]. apply push_abs; assumption.
  - (* from slice: collect of the iterator *)
    slice_in A H. inversion H; subst; clear H. rewrite S. cbn [bind].
    rewrite (iter_spec C OK) by (auto using good_small, good_canon). cbn [bind].
    rewrite collect_spec. eexists. split; [reflexivity|]. apply push_abs; assumption.
  - (* to_rev *)
    slice_in A H. inversion H; subst; clear H. rewrite S. cbn [bind].
    rewrite (rev_spec C OK). eexists. split; [reflexivity|]. apply push_abs; [exact A|].
    apply Forall_rev. exact G.
  - (* to_comp *)
    slice_in A H. rewrite S. cbn [bind].
    destruct (lmapsym C (comp_sym C) xs) as [ys|] eqn:M; [|discriminate].
    destruct (lmapsym_sound _ _ _ G M) as [M1 M2]. unfold seq_comp. rewrite M1. cbn [bind].
    inversion H; subst; clear H. eexists. split; [reflexivity|]. apply push_abs; [exact A|exact M2].
  - (* to_revcomp *)
    slice_in A H. rewrite S. cbn [bind].
    destruct (lmapsym C (comp_sym C) xs) as [ys|] eqn:M; [|discriminate].
    destruct (lmapsym_sound _ _ _ G M) as [M1 M2]. unfold seq_revcomp, seq_comp. rewrite M1. cbn [bind].
    unfold ret. rewrite (rev_spec C OK).
    inversion H; subst; clear H. eexists. split; [reflexivity|]. apply push_abs; [exact A|apply Forall_rev; exact M2].
  - (* to_mask *)
    reg_in A H. rewrite R. cbn [bind].
    destruct (lmapsym C (mask_sym C) rs) as [ys|] eqn:M; [|discriminate].
    destruct (lmapsym_sound _ _ _ G M) as [M1 M2]. unfold seq_mask. rewrite M1. cbn [bind].
    inversion H; subst; clear H. eexists. split; [reflexivity|]. apply push_abs; [exact A|exact M2].
  - (* to_unmask *)
    reg_in A H. rewrite R. cbn [bind].
    destruct (lmapsym C (unmask_sym C) rs) as [ys|] eqn:M; [|discriminate].
    destruct (lmapsym_sound _ _ _ G M) as [M1 M2]. unfold seq_unmask. rewrite M1. cbn [bind].
    inversion H; subst; clear H. eexists. split; [reflexivity|]. apply push_abs; [exact A|exact M2].
  - (* & of slices *)
    slice_in A H. slice_in A H. rewrite S, S0. cbn [bind].
    destruct (lbitop C N.land xs xs0) as [r|] eqn:M; [|discriminate]. destruct (lbitop_and _ _ _ M) as [M1 M2].
    rewrite M1. inversion H; subst; clear H. eexists. split; [reflexivity|]. apply push_abs; assumption.
  - (* | of slices *)
    slice_in A H. slice_in A H. rewrite S, S0. cbn [bind].
    destruct (lbitop C N.lor xs xs0) as [r|] eqn:M; [|discriminate]. destruct (lbitop_or _ _ _ M) as [M1 M2].
    rewrite M1. inversion H; subst; clear H. eexists. split; [reflexivity|]. apply push_abs; assumption.
  - (* bit_and of owned *)
    reg_in A H. reg_in A H. rewrite R, R0. cbn [bind].
    destruct (lbitop C N.land rs rs0) as [r|] eqn:M; [|discriminate]. destruct (lbitop_and _ _ _ M) as [M1 M2].
    rewrite M1. inversion H; subst; clear H. eexists. split; [reflexivity|]. apply push_abs; assumption.
  - (* bit_or of owned *)
    reg_in A H. reg_in A H. rewrite R, R0. cbn [bind].
    destruct (lbitop C N.lor rs rs0) as [r|] eqn:M; [|discriminate]. destruct (lbitop_or _ _ _ M) as [M1 M2].
    rewrite M1. inversion H; subst; clear H. eexists. split; [reflexivity|]. apply push_abs; assumption.
  - (* from_raw *)
    rewrite from_raw_spec. unfold nn.
    destruct (64 * length ws <? N.to_nat n * B) eqn:E.
    + inversion H; subst; clear H. eexists. split; [reflexivity|]. change (@nil bool) with (encode B []).
      apply push_abs; [apply emit_abs; exact A|constructor].
    + destruct (forallb gbC (codes B (firstn (N.to_nat n * B) (words_bits ws)))) eqn:V; [|discriminate].
      inversion H; subst; clear H. apply Nat.ltb_ge in E.
      assert (L : length (firstn (N.to_nat n * B) (words_bits ws)) = B * N.to_nat n).
      { rewrite firstn_length, words_bits_length. lia. }
      pose proof (encode_codes _ _ (Bpos C OK) L) as EC.
      remember (codes B (firstn (N.to_nat n * B) (words_bits ws))) as xs eqn:Exs.
      rewrite <- EC. eexists. split; [reflexivity|].
      apply push_abs; [apply emit_abs; exact A|apply gbC_goods; exact V].
  - (* serde round trip *)
    reg_in A H. rewrite R. cbn [bind]. inversion H; subst; clear H.
    eexists. split; [reflexivity|]. apply push_abs; [apply emit_abs; exact A|exact G].
  - (* push *)
    cbn [edit_args_ok] in H. destruct (gbC c) eqn:V; [|discriminate].
    reg_in A H. cbn [lstep] in H. rewrite R. cbn [bind]. rewrite push_spec.
    apply (set_abs _ _ _ _ _ A); [|exact H].
    apply Forall_app. split; [exact G|]. constructor; [apply gbC_good; exact V|constructor].
  - (* extend *)
    cbn [edit_args_ok] in H. destruct (forallb gbC cs) eqn:V; [|discriminate].
    reg_in A H. cbn [lstep] in H. rewrite R. cbn [bind]. rewrite extend_spec.
    apply (set_abs _ _ _ _ _ A); [|exact H].
    apply Forall_app. split; [exact G|apply gbC_goods; exact V].
  - (* append *)
    slice_in A H. cbn [edit_args_ok] in H. reg_in A H. cbn [lstep] in H.
    rewrite R. cbn [bind]. rewrite S. cbn [bind]. rewrite append_spec.
    apply (set_abs _ _ _ _ _ A); [|exact H]. apply Forall_app. split; assumption.
  - (* prepend *)
    slice_in A H. cbn [edit_args_ok] in H. reg_in A H. cbn [lstep] in H.
    rewrite R. cbn [bind]. rewrite S. cbn [bind]. rewrite prepend_spec.
    apply (set_abs _ _ _ _ _ A); [|exact H]. apply Forall_app. split; assumption.
  - (* insert *)
    slice_in A H. cbn [edit_args_ok] in H. reg_in A H. cbn [lstep] in H.
    rewrite R. cbn [bind]. rewrite S. cbn [bind]. unfold nn. rewrite (insert_spec C OK).
    destruct (N.to_nat i <=? length rs); [|discriminate]. cbn [bind].
    apply (set_abs _ _ _ _ _ A); [|exact H].
    apply Forall_app. split; [apply Forall_firstn'; exact G0|].
    apply Forall_app. split; [exact G|apply Forall_skipn'; exact G0].
  - (* remove *)
    cbn [edit_args_ok] in H. reg_in A H. rewrite R. cbn [bind]. unfold nn.
    destruct (lstep rs (ERemove form (N.to_nat a) (N.to_nat b))) as [ys|] eqn:L; [|discriminate].
    pose proof (step_refines C dbg OK rs _ ys L) as M. cbn [mstep] in M. rewrite M. cbn [bind].
    apply (set_abs _ _ _ _ _ A); [|exact H].
    cbn [lstep] in L. destruct (lbounds (length rs) form (N.to_nat a) (N.to_nat b)) as [s e].
    destruct ((s <=? e) && (e <=? length rs)); [|discriminate]. inversion L; subst.
    apply Forall_app. split; [apply Forall_firstn'|apply Forall_skipn']; exact G.
  - (* truncate *)
    cbn [edit_args_ok] in H. reg_in A H. cbn [lstep] in H. rewrite R. cbn [bind]. unfold nn.
    rewrite truncate_spec. apply (set_abs _ _ _ _ _ A); [|exact H]. apply Forall_firstn'. exact G.
  - (* clear *)
    cbn [edit_args_ok] in H. reg_in A H. cbn [lstep] in H. rewrite R. cbn [bind].
    change (@nil bool) with (encode B []).
    apply (set_abs _ _ _ _ _ A); [constructor|exact H].
  - (* rev *)
    reg_in A H. rewrite R. cbn [bind]. rewrite (rev_spec C OK).
    apply (set_abs _ _ _ _ _ A); [|exact H]. apply Forall_rev. exact G.
  - (* comp in place *)
    reg_in A H. rewrite R. cbn [bind].
    destruct (lmapsym C (comp_sym C) rs) as [ys|] eqn:M; [|discriminate].
    destruct (lmapsym_sound _ _ _ G M) as [M1 M2]. unfold seq_comp. rewrite M1. cbn [bind].
    apply (set_abs _ _ _ _ _ A); [|exact H]. exact M2.
  - (* revcomp in place *)
    reg_in A H. rewrite R. cbn [bind].
    destruct (lmapsym C (comp_sym C) rs) as [ys|] eqn:M; [|discriminate].
    destruct (lmapsym_sound _ _ _ G M) as [M1 M2]. unfold seq_revcomp, seq_comp. rewrite M1. cbn [bind].
    unfold ret. rewrite (rev_spec C OK).
    apply (set_abs _ _ _ _ _ A); [|exact H]. apply Forall_rev. exact M2.
  - (* mask in place *)
    reg_in A H. rewrite R. cbn [bind].
    destruct (lmapsym C (mask_sym C) rs) as [ys|] eqn:M; [|discriminate].
    destruct (lmapsym_sound _ _ _ G M) as [M1 M2]. unfold seq_mask. rewrite M1. cbn [bind].
    apply (set_abs _ _ _ _ _ A); [|exact H]. exact M2.
  - (* unmask in place *)
    reg_in A H. rewrite R. cbn [bind].
    destruct (lmapsym C (unmask_sym C) rs) as [ys|] eqn:M; [|discriminate].
    destruct (lmapsym_sound _ _ _ G M) as [M1 M2]. unfold seq_unmask. rewrite M1. cbn [bind].
    apply (set_abs _ _ _ _ _ A); [|exact H]. exact M2.
  - (* len *)
    slice_in A H. rewrite S. cbn [bind]. rewrite (slen_encode C OK). done_emit A H.
  - (* display *)
    slice_in A H. rewrite S. cbn [bind]. rewrite (display_enc _ G).
    destruct (mapM (to_char C) xs) as [t|]; [|discriminate]. cbn [bind]. done_emit A H.
  - (* codes *)
    slice_in A H. rewrite S. cbn [bind]. rewrite (lencodes_enc _ G). cbn [bind]. done_emit A H.
  - (* rev_iter *)
    slice_in A H. rewrite S. cbn [bind].
    rewrite (rev_iter_spec C OK) by (auto using good_small, good_canon). cbn [bind]. done_emit A H.
  - (* nth *)
    slice_in A H. rewrite S. cbn [bind]. unfold nn.
    destruct (Nat.ltb_spec (N.to_nat i) (length xs)) as [Hi|Hi]; [|discriminate].
    rewrite (nth_sym_in C OK) by (auto using good_small).
    destruct (good_nth xs _ G Hi) as [_ Hc]. unfold canon in Hc. rewrite Hc. cbn [bind].
    done_emit A H.
  - (* get *)
    slice_in A H. rewrite S. cbn [bind]. unfold nn.
    rewrite (get_sym_spec C OK) by (auto using good_small).
    destruct (Nat.leb_spec (length xs) (N.to_nat i)) as [Hi|Hi]; cbn [bind].
    + done_emit A H.
    + destruct (good_nth xs _ G Hi) as [_ Hc]. unfold canon in Hc. rewrite Hc. cbn [option_map bind].
      done_emit A H.
  - (* windows *)
    slice_in A H. rewrite S. cbn [bind]. unfold nn.
    destruct (Nat.leb_spec 1 (N.to_nat w)) as [Hw|Hw]; [|discriminate].
    rewrite (windows_spec C OK) by exact Hw. cbn [bind].
    rewrite (wins_obs (fun i => sub xs i (N.to_nat w))) by (intros; apply Forall_sub; exact G).
    cbn [bind]. done_emit A H.
  - (* chunks *)
    slice_in A H. rewrite S. cbn [bind]. unfold nn.
    destruct (Nat.leb_spec 1 (N.to_nat w)) as [Hw|Hw]; [|discriminate].
    rewrite (chunks_spec_seq C OK) by exact Hw. cbn [bind].
    rewrite (wins_obs (fun k => sub xs (k * N.to_nat w) (N.to_nat w)))
      by (intros; apply Forall_sub; exact G).
    cbn [bind]. done_emit A H.
  - (* windows collected into a Vec *)
    slice_in A H. rewrite S. cbn [bind]. unfold nn.
    destruct (Nat.leb_spec 1 (N.to_nat w)) as [Hw|Hw]; [|discriminate].
    rewrite (windows_spec C OK) by exact Hw. cbn [bind].
    rewrite (wins_obs (fun i => sub xs i (N.to_nat w))) by (intros; apply Forall_sub; exact G).
    cbn [bind]. done_emit A H.
  - (* chain *)
    slice_in A H. slice_in A H. rewrite S, S0. cbn [bind].
    rewrite (chain_spec C OK) by (auto using good_small, good_canon). cbn [bind]. done_emit A H.
  - (* eq, ten pairings *)
    slice_in A H. slice_in A H. reg_in A H. reg_in A H.
    rewrite S, S0. cbn [bind]. rewrite R, R0. cbn [bind].
    rewrite (eqb_enc rs rs0), (eqb_enc rs xs0), (eqb_enc xs rs0), (eqb_enc xs xs0) by assumption.
    done_emit A H.
  - (* == &str *)
    slice_in A H. rewrite S. cbn [bind].
    rewrite (eq_str_spec C OK) by (auto using good_small, good_canon). cbn [bind].
    rewrite lparse_ascii. destruct (lparse C bytes) as [ys|e]; done_emit A H.
  - (* cmp *)
    reg_in A H. reg_in A H. rewrite R, R0. cbn [bind].
    destruct (Nat.eqb_spec (length rs) (length rs0)) as [Hl|]; [|discriminate].
    rewrite (seq_cmp_colex C) by (auto using good_small). done_emit A H.
  - (* usize view *)
    slice_in A H. rewrite S. cbn [bind].
    rewrite (to_usize_spec C OK) by (auto using good_small).
    destruct (B * length xs <=? 64).
    + destruct (1 <=? B * length xs); [|discriminate]. cbn [bind]. done_emit A H.
    + cbn [bind]. done_emit A H.
  - (* u8::from(&slice) *)
    slice_in A H. rewrite S. cbn [bind]. unfold to_u8. rewrite length_encode.
    destruct ((1 <=? B * length xs) && (B * length xs <=? 8)); [|discriminate]. cbn [assert bind].
    rewrite of_bits_encode by (apply good_small; exact G). done_emit A H.
  - (* usize::from(Seq) *)
    reg_in A H. rewrite R. cbn [bind]. unfold into_usize. rewrite length_encode.
    destruct ((1 <=? B * length rs) && (B * length rs <=? 64)); [|discriminate]. cbn [assert bind].
    rewrite of_bits_encode by (apply good_small; exact G). done_emit A H.
  - (* into_raw: the live region of the word image *)
    reg_in A H. rewrite R. cbn [bind]. rewrite (intoraw_enc _ G). done_emit A H.
  - (* hash feeds *)
    slice_in A H. slice_in A H. rewrite S, S0. cbn [bind].
    rewrite (hash_enc xs xs0) by assumption. done_emit A H.
  - (* HashMap lookup *)
    reg_in A H. slice_in A H. rewrite R. cbn [bind]. rewrite S. cbn [bind].
    rewrite (eqb_enc rs xs) by assumption. done_emit A H.
  - (* contains *)
    destruct (match m with 1%N => lget l (sd_reg a) | _ => lslice l a end) as [ps|] eqn:P;
      [|discriminate].
    slice_in A H.
    assert (P' : (match m with 1%N => get_reg st (sd_reg a) | _ => slice_of C st a end)
                 = Some (encode B ps) /\ Forall good ps).
    { destruct m as [|[p|p|]]; try (apply (slice_abs _ _ _ _ A P)). apply (get_abs _ _ _ _ A P). }
    destruct P' as [P1 P2]. rewrite P1. cbn [bind]. rewrite S. cbn [bind].
    rewrite (contains_spec C OK) by (auto using good_small). done_emit A H.
  - (* conversion to IUPAC / text *)
    slice_in A H. rewrite S. cbn [bind].
    destruct t as [|p]; cbn beta iota in H |- *.
    + destruct (codec_okb ic) eqn:OKb; [|discriminate]. pose proof (codec_okb_sound ic OKb) as OKi.
      unfold convert. rewrite (iter_spec C OK) by (auto using good_small, good_canon). cbn [bind].
      destruct (mapM cvi xs) as [ys|]; [|discriminate]. cbn [bind].
      destruct (forallb (Refine.gbC ic) ys) eqn:V; [|discriminate].
      destruct (target_obs ic OKi ys V) as [T1 [T2 T3]].
      unfold ret at 1. cbn [bind]. fold (encode (c_bits ic) ys). rewrite T1. cbn [bind]. rewrite T2.
      destruct (mapM (to_char ic) ys) as [ds|]; [|discriminate]. cbn [bind]. rewrite T3.
      done_emit A H.
    + destruct (codec_okb tc) eqn:OKb; [|discriminate]. pose proof (codec_okb_sound tc OKb) as OKt.
      unfold convert. rewrite (iter_spec C OK) by (auto using good_small, good_canon). cbn [bind].
      destruct (mapM cvt xs) as [ys|]; [|discriminate]. cbn [bind].
      destruct (forallb (Refine.gbC tc) ys) eqn:V; [|discriminate].
      destruct (target_obs tc OKt ys V) as [T1 [T2 T3]].
      unfold ret at 1. cbn [bind]. fold (encode (c_bits tc) ys). rewrite T1. cbn [bind]. rewrite T2.
      destruct (mapM (to_char tc) ys) as [ds|]; [|discriminate]. cbn [bind]. rewrite T3.
      done_emit A H.
  - (* all registers *)
    pose proof A as [Hr [Ho [Hg _]]]. rewrite Hr. rewrite (flat_lencodes_enc _ Hg). cbn [bind].
    rewrite map_length. done_emit A H.
  - (* Seq::from(BitVec) *)
    destruct (forallb gbC cs) eqn:V; [|discriminate]. inversion H; subst; clear H.
    eexists. split; [reflexivity|]. apply push_abs; [exact A|apply gbC_goods; exact V].
  - (* SeqArray *)
    slice_in A H. rewrite S. cbn [bind].
    destruct (forallb gbC cs) eqn:V; [|discriminate]. pose proof (gbC_goods _ V) as Gc.
    rewrite (lencodes_enc _ Gc). cbn [bind].
    rewrite !(eqb_enc cs xs), !(eqb_enc xs cs) by assumption.
    rewrite (slen_encode C OK).
    rewrite (contains_spec C OK) by (auto using good_small).
    unfold list_eqb at 3. unfold lenc in H. unfold nat2n.
    destruct (B =? 2).
    + destruct (mapM cvi cs) as [x|]; [|discriminate].
      destruct (mapM cvt cs) as [y|]; [|discriminate]. cbn [bind]. done_emit A H.
    + cbn [bind]. done_emit A H.
  - (* translation of DNA: one codon, windows of three, chunks of three *)
    slice_in A H. rewrite S. cbn [bind].
    destruct m as [|[[p|p|]|[p|p|]|]]; try discriminate.
    + rewrite (windows_spec C OK) by lia. cbn [bind].
      rewrite <- (map_map (fun i => sub xs i 3) (encode B)).
      rewrite mapM_toamino by (apply subs_good; exact G).
      destruct (mapM (ltoamino C ac) (map (fun i => sub xs i 3) (seq 0 (length xs + 1 - 3)))) as [r|];
        [|discriminate]. cbn [bind]. done_emit A H.
    + rewrite (ltoamino_sound _ G). destruct (ltoamino C ac xs) as [a|]; [|discriminate].
      cbn [bind]. done_emit A H.
    + rewrite (chunks_spec_seq C OK) by lia. cbn [bind].
      rewrite <- (map_map (fun k => sub xs (k * 3) 3) (encode B)).
      rewrite mapM_toamino.
      * destruct (mapM (ltoamino C ac) (map (fun k => sub xs (k * 3) 3) (seq 0 (length xs / 3)))) as [r|];
          [|discriminate]. cbn [bind]. done_emit A H.
      * apply Forall_forall. intros y Hy. apply in_map_iff in Hy. destruct Hy as [i [<- _]].
        apply Forall_sub. exact G.
  - (* translation of an IUPAC codon *)
    slice_in A H. rewrite S. cbn [bind]. rewrite (slen_encode C OK).
    unfold std_index. rewrite (codes_encode (Bpos C OK)) by (apply good_small; exact G).
    unfold nn. destruct (negb (length xs =? 3)); done_emit A H.
  - (* reverse translation *)
    destruct (find (fun p => (fst p =? a)%N) stdc) as [[x [c| | |]]|]; done_emit A H.
  - (* custom table construction *)
    destruct (forallb (fun e => forallb gbC (fst e)) (ldecode_entries (length flat) flat [])) eqn:V;
      [|discriminate].
    inversion H; subst; clear H. eexists. split; [reflexivity|].
    change (@nil (bits * N)) with (map enc_entry []). rewrite decode_enc.
    apply setct_abs; [exact A|apply keys_goodb; exact V].
  - (* custom table query *)
    slice_in A H. rewrite S. cbn [bind].
    pose proof A as [_ [_ [_ [_ [Hc1 Hc2]]]]]. rewrite Hc1.
    change (fun e : list N * N => (encode B (fst e), snd e)) with enc_entry.
    rewrite (lookup_enc _ _ Hc2 G).
    destruct (lct_lookup (lct l) xs); done_emit A H.
  - (* custom table reverse query *)
    pose proof A as [_ [_ [_ [_ [Hc1 Hc2]]]]]. rewrite Hc1.
    change (fun e : list N * N => (encode B (fst e), snd e)) with enc_entry.
    destruct (preimages_enc (lct l) a Hc2) as [P1 P2]. rewrite P1.
    destruct (lct_preimages (lct l) a) as [|k [|k2 r]]; cbn [map].
    + done_emit A H.
    + inversion P2 as [|? ? Gk _]; subst.
      rewrite (slen_encode C OK). rewrite (codes_encode (Bpos C OK)) by (apply good_small; exact Gk).
      done_emit A H.
    + done_emit A H.
  - (* Kmer::try_from(slice) *)
    slice_in A H. rewrite S. cbn [bind]. unfold nn. eapply make_sound; eassumption.
  - (* Kmer::unsafe_from *)
    slice_in A H. rewrite S. cbn [bind]. unfold nn.
    destruct (kfits C (N.to_nat k) w) eqn:F; [|discriminate]. cbn [andb] in H.
    destruct (Nat.eqb_spec (length xs) (N.to_nat k)) as [L|L]; [|discriminate].
    destruct (kfits_spec _ _ F) as [F1 F2].
    unfold unsafe_from. rewrite (slen_encode C OK), L, Nat.eqb_refl, orb_true_r. cbn [assert bind].
    rewrite (from_bitslice_encode C OK _ _ F1 F2) by exact L. cbn [bind].
    inversion H; subst; clear H. eexists. split; [reflexivity|].
    apply setk_abs; try assumption; lia.
  - (* Kmer::from_str *)
    unfold nn. destruct (kfits C (N.to_nat k) w) eqn:F; [|discriminate].
    unfold from_str. destruct (negb (length bytes =? N.to_nat k)).
    + cbn [bind kerr_obs]. done_emit A H.
    + rewrite lparse_sound. destruct (lparse C bytes) as [xs|b] eqn:P.
      * eapply make_sound; [exact A|eapply lparse_good; exact P|exact H].
      * cbn [bind kerr_obs]. done_emit A H.
  - (* Kmer::from(integer) *)
    unfold nn. set (K := N.to_nat k) in *.
    set (v := ((lo + 2 ^ 64 * hi) mod 2 ^ N.of_nat (wbits w))%N) in *.
    destruct (kfits C K w) eqn:F; [|discriminate]. destruct (kfits_spec _ _ F) as [F1 F2].
    destruct (N.ltb_spec v (2 ^ N.of_nat (K * B))) as [Hv|]; [|discriminate]. cbn [andb] in H.
    destruct (forallb gbC (codes B (to_bits (K * B) v))) eqn:V; [|discriminate].
    inversion H; subst; clear H. eexists. split; [reflexivity|].
    assert (L : length (to_bits (K * B) v) = B * K) by (rewrite to_bits_length; lia).
    assert (LK : length (codes B (to_bits (K * B) v)) = K) by (apply (codes_length _ _ (Bpos C OK) L)).
    assert (E : kval C (codes B (to_bits (K * B) v)) = v).
    { unfold kval. rewrite (encode_codes _ _ (Bpos C OK) L). apply to_bits_small. exact Hv. }
    remember (codes B (to_bits (K * B) v)) as ks eqn:Eks. rewrite <- E.
    apply setk_abs; [exact A|apply gbC_goods; exact V|rewrite LK; exact F1|rewrite LK; exact F2|].
    rewrite LK. unfold K. now rewrite N2Nat.id.
  - (* Kmer::try_from(Seq) *)
    reg_in A H. rewrite R. cbn [bind]. unfold nn. eapply make_sound; eassumption.
  - (* kmers iterator *)
    slice_in A H. rewrite S. cbn [bind]. unfold nn.
    destruct (kfits C (N.to_nat k) w) eqn:F; [|discriminate]. destruct (kfits_spec _ _ F) as [F1 F2].
    rewrite (kmers_spec C dbg OK _ _ F1 F2). cbn [bind]. rewrite (lkmers_kval _ _ G).
    unfold nat2n. done_emit A H.
  - (* minimiser: min / max over the k-mers *)
    slice_in A H. rewrite S. cbn [bind]. unfold nn.
    destruct (kfits C (N.to_nat k) w) eqn:F; [|discriminate]. destruct (kfits_spec _ _ F) as [F1 F2].
    rewrite (kmers_spec C dbg OK _ _ F1 F2). cbn [bind]. rewrite (lkmers_kval _ _ G).
    destruct (lkmers C (N.to_nat k) xs); done_emit A H.
  - (* integer, K, display of the current k-mer *)
    kmer_in A H.
    rewrite (kdisplay_spec C OK _ _ K4 K5) by (auto using good_small, good_canon).
    change (char_of C) with (to_char C).
    destruct (mapM (to_char C) ks) as [d|]; [|discriminate]. cbn [bind].
    rewrite (kint_kval _ K6). done_emit A H.
  - (* rotated_left *)
    kmer_in A H. rewrite (rotated_left_spec C OK _ _ K4 K5) by reflexivity. cbn [bind].
    inversion H; subst; clear H. eexists. split; [reflexivity|].
    apply setk_abs; [exact A|apply lrotl_good; exact K6|rewrite lrotl_len; exact K4
                    |rewrite lrotl_len; exact K5|rewrite lrotl_len; reflexivity].
  - (* rotated_right *)
    kmer_in A H. rewrite (rotated_right_spec C OK _ _ K4 K5) by reflexivity. cbn [bind].
    inversion H; subst; clear H. eexists. split; [reflexivity|].
    unfold lrotr.
    apply setk_abs; [exact A|apply lrotl_good; exact K6|rewrite lrotl_len; exact K4
                    |rewrite lrotl_len; exact K5|rewrite lrotl_len; reflexivity].
  - (* pushl *)
    kmer_in A H. destruct (gbC c) eqn:V; [|discriminate].
    rewrite (pushl_spec C OK _ _ K4 K5) by reflexivity. cbn [bind].
    inversion H; subst; clear H. eexists. split; [reflexivity|].
    assert (L : length (c :: firstn (length ks - 1) ks) = length ks)
      by (cbn [length]; rewrite firstn_length; lia).
    apply setk_abs; [exact A| |rewrite L; exact K4|rewrite L; exact K5|rewrite L; reflexivity].
    constructor; [apply gbC_good; exact V|apply Forall_firstn'; exact K6].
  - (* pushr *)
    kmer_in A H. destruct (gbC c) eqn:V; [|discriminate].
    rewrite (pushr_spec C OK _ _ K4 K5) by reflexivity. cbn [bind].
    inversion H; subst; clear H. eexists. split; [reflexivity|].
    assert (L : length (skipn 1 ks ++ [c]) = length ks)
      by (rewrite app_length, skipn_length; cbn [length]; lia).
    cbn [skipn] in L.
    apply setk_abs; [exact A| |rewrite L; exact K4|rewrite L; exact K5|rewrite L; reflexivity].
    apply Forall_app. split; [apply (Forall_skipn' good 1 ks); exact K6|].
    constructor; [apply gbC_good; exact V|constructor].
  - (* Kmer == slice *)
    kmer_in A H. slice_in A H. rewrite S. cbn [bind].
    rewrite (keq_slice_spec C dbg OK _ _ K4 K5) by (auto using good_small). cbn [bind].
    done_emit A H.
  - (* Kmer hashes like the slice *)
    kmer_in A H. slice_in A H. rewrite S. cbn [bind].
    rewrite (khash_feed_spec C OK _ _ K4 K5) by reflexivity. cbn [bind].
    rewrite (hash_enc ks xs) by assumption. rewrite list_eqb_sym. done_emit A H.
  - (* order against an integer *)
    kmer_in A H. rewrite (kint_kval _ K6). done_emit A H.
  - (* serde round trip of the k-mer *)
    done_emit A H.
  - (* deref *)
    kmer_in A H. rewrite (kderef_spec C OK _ _ K4 K5) by reflexivity. cbn [bind].
    rewrite (lencodes_enc _ K6). cbn [bind]. done_emit A H.
  - (* as_ref *)
    kmer_in A H. rewrite (kderef_spec C OK _ _ K4 K5) by reflexivity. cbn [bind].
    rewrite (lencodes_enc _ K6). cbn [bind]. done_emit A H.
  - (* Seq::from(kmer) *)
    kmer_in A H. rewrite (kto_seq_spec C OK _ _ K4 K5) by (auto using good_small, good_canon).
    cbn [bind]. inversion H; subst; clear H. eexists. split; [reflexivity|].
    apply push_abs; assumption.
  - (* rev in place *)
    kmer_in A H.
    assert (R : krev C (length ks) (wbits w) (kval C ks) = Some (kval C (rev ks))).
    { destruct (B =? 2) eqn:B2.
      - cbn [negb orb] in H. destruct (Nat.eqb_spec (wbits w) 64) as [W64|]; [|discriminate].
        apply Nat.eqb_eq in B2. rewrite W64 in *. rewrite B2 in K5.
        apply (krev_2bit_spec C OK _ K4 B2 K5). reflexivity.
      - apply (krev_generic_spec C OK _ _ K4 K5); [reflexivity|exact B2]. }
    rewrite R. cbn [bind].
    destruct (negb (B =? 2) || (wbits w =? 64)); [|discriminate].
    inversion H; subst; clear H. eexists. split; [reflexivity|].
    apply setk_abs; [exact A|apply Forall_rev; exact K6|rewrite rev_length; exact K4
                    |rewrite rev_length; exact K5|rewrite rev_length; reflexivity].
  - (* to_rev *)
    kmer_in A H.
    assert (R : krev C (length ks) (wbits w) (kval C ks) = Some (kval C (rev ks))).
    { destruct (B =? 2) eqn:B2.
      - cbn [negb orb] in H. destruct (Nat.eqb_spec (wbits w) 64) as [W64|]; [|discriminate].
        apply Nat.eqb_eq in B2. rewrite W64 in *. rewrite B2 in K5.
        apply (krev_2bit_spec C OK _ K4 B2 K5). reflexivity.
      - apply (krev_generic_spec C OK _ _ K4 K5); [reflexivity|exact B2]. }
    rewrite R. cbn [bind].
    destruct (negb (B =? 2) || (wbits w =? 64)); [|discriminate].
    inversion H; subst; clear H. eexists. split; [reflexivity|].
    apply setk_abs; [exact A|apply Forall_rev; exact K6|rewrite rev_length; exact K4
                    |rewrite rev_length; exact K5|rewrite rev_length; reflexivity].
  - (* Kmer == Seq *)
    kmer_in A H. reg_in A H. rewrite R. cbn [bind].
    rewrite (keq_slice_spec C dbg OK _ _ K4 K5) by (auto using good_small). cbn [bind].
    done_emit A H.
  - (* Kmer == &str *)
    kmer_in A H. unfold keq_str.
    rewrite (kdisplay_spec C OK _ _ K4 K5) by (auto using good_small, good_canon).
    change (char_of C) with (to_char C).
    destruct (mapM (to_char C) ks) as [d|]; [|discriminate]. cbn [bind]. done_emit A H.
  - (* usize::from(&kmer) *)
    kmer_in A H. rewrite (kint_kval _ K6). done_emit A H.
  - (* complement in place *)
    kmer_in A H.
    destruct (Nat.eqb_spec B 2) as [B2|]; [|discriminate].
    destruct (Nat.eqb_spec (wbits w) 64) as [W64|]; [|discriminate]. cbn [andb] in H.
    destruct (forallb gbC (map comp2 ks)) eqn:V; [|discriminate].
    rewrite W64 in *. rewrite B2 in K5.
    rewrite (kcomplement_2bit C OK _ K4 B2 K5) by reflexivity.
    inversion H; subst; clear H. eexists. split; [reflexivity|].
    apply setk_abs; [exact A|apply gbC_goods; exact V|rewrite map_length; exact K4
                    |rewrite map_length, W64, B2; exact K5|rewrite map_length; reflexivity].
  - (* to_comp *)
    kmer_in A H.
    destruct (Nat.eqb_spec B 2) as [B2|]; [|discriminate].
    destruct (Nat.eqb_spec (wbits w) 64) as [W64|]; [|discriminate]. cbn [andb] in H.
    destruct (forallb gbC (map comp2 ks)) eqn:V; [|discriminate].
    rewrite W64 in *. rewrite B2 in K5.
    rewrite (kcomplement_2bit C OK _ K4 B2 K5) by reflexivity.
    inversion H; subst; clear H. eexists. split; [reflexivity|].
    apply setk_abs; [exact A|apply gbC_goods; exact V|rewrite map_length; exact K4
                    |rewrite map_length, W64, B2; exact K5|rewrite map_length; reflexivity].
  - (* revcomp in place *)
    kmer_in A H.
    destruct (Nat.eqb_spec B 2) as [B2|]; [|discriminate].
    destruct (Nat.eqb_spec (wbits w) 64) as [W64|]; [|discriminate]. cbn [andb] in H.
    destruct (forallb gbC (map comp2 ks)) eqn:V; [|discriminate].
    rewrite W64 in *. rewrite B2 in K5.
    rewrite (krevcomp_2bit C OK _ K4 B2 K5) by reflexivity. cbn [bind].
    inversion H; subst; clear H. eexists. split; [reflexivity|].
    apply setk_abs; [exact A|apply Forall_rev; apply gbC_goods; exact V
                    |rewrite rev_length, map_length; exact K4
                    |rewrite rev_length, map_length, W64, B2; exact K5
                    |rewrite rev_length, map_length; reflexivity].
  - (* to_revcomp *)
    kmer_in A H.
    destruct (Nat.eqb_spec B 2) as [B2|]; [|discriminate].
    destruct (Nat.eqb_spec (wbits w) 64) as [W64|]; [|discriminate]. cbn [andb] in H.
    destruct (forallb gbC (map comp2 ks)) eqn:V; [|discriminate].
    rewrite W64 in *. rewrite B2 in K5.
    rewrite (krevcomp_2bit C OK _ K4 B2 K5) by reflexivity. cbn [bind].
    inversion H; subst; clear H. eexists. split; [reflexivity|].
    apply setk_abs; [exact A|apply Forall_rev; apply gbC_goods; exact V
                    |rewrite rev_length, map_length; exact K4
                    |rewrite rev_length, map_length, W64, B2; exact K5
                    |rewrite rev_length, map_length; reflexivity].
  - (* slice methods on the k-mer itself *)
    kmer_in A H. rewrite (kderef_spec C OK _ _ K4 K5) by reflexivity. cbn [bind].
    rewrite (lencodes_enc _ K6). cbn [bind]. rewrite (mapM_get _ _ K6). cbn [bind].
    rewrite map_map.
    rewrite (map_ext (fun x : nat =>
               match (if length ks <=? x then None else Some (nth x ks 0%N)) with
               | Some c => [1%N; c] | None => [0%N] end)
             (fun i => if length ks <=? i then [0%N] else [1%N; nth i ks 0%N]))
      by (intros i; destruct (length ks <=? i); reflexivity).
    done_emit A H.
Qed.

(* every history: the observations of the bit-level VM are those of the list machine *)
Theorem vm_refines_list_machine ops : forall st l l',
  abs st l -> lm_run C cvi cvt ic tc ac stdt stdc l ops = Some l' ->
  run_ops C dbg cvi cvt ic tc ac stdt stdc st ops = (rev (lout l'), false).
Proof.
  induction ops as [|o t IH]; intros st l l' A H; cbn [lm_run run_ops] in *.
  - inversion H; subst. destruct A as [_ [Ho _]]. now rewrite Ho.
  - destruct (lm_step C cvi cvt ic tc ac stdt stdc l o) as [l1|] eqn:E; [|discriminate].
    destruct (vstep_refines _ _ _ _ A E) as [st1 [V A1]]. unfold vstep in V. rewrite V.
    eapply IH; eassumption.
Qed.

Lemma abs_init : abs init {| lregs := []; lk := None; lct := []; lout := [] |}.
Proof. unfold abs, init. cbn. repeat split; constructor. Qed.

Corollary script_refines ops l' :
  lm_run C cvi cvt ic tc ac stdt stdc {| lregs := []; lk := None; lct := []; lout := [] |} ops = Some l' ->
  run C dbg cvi cvt ic tc ac stdt stdc ops = (rev (lout l'), false).
Proof. intros H. unfold run. eapply vm_refines_list_machine; [apply abs_init|exact H]. Qed.

(* and the registers at the end are exactly the packed images of the list machine's registers *)
Theorem vm_registers_refine ops : forall st l l',
  abs st l -> lm_run C cvi cvt ic tc ac stdt stdc l ops = Some l' ->
  exists st', fold_left (fun s o => match s with Some x => vstep x o | None => None end) ops (Some st)
              = Some st' /\ abs st' l'.
Proof.
  induction ops as [|o t IH]; intros st l l' A H; cbn [lm_run fold_left] in *.
  - inversion H; subst. eexists. split; [reflexivity|exact A].
  - destruct (lm_step C cvi cvt ic tc ac stdt stdc l o) as [l1|] eqn:E; [|discriminate].
    destruct (vstep_refines _ _ _ _ A E) as [st1 [V A1]]. rewrite V. eapply IH; eassumption.
Qed.

End Refines.

(* ---------- used by the correspondence check: how many of the scripts it ran lie within the scope
   of the refinement theorem (the list machine is defined on them), and on how many of those the
   implementation's observations equal the list machine's directly ---------- *)
Definition lm_obs (C : codec) (cvi cvt : N -> res N) (ic tc ac : codec) (stdt : list tres)
    (stdc : list (N * cres)) (ops : list op) : option (list (list N)) :=
  match lm_run C cvi cvt ic tc ac stdt stdc {| lregs := []; lk := None; lct := []; lout := [] |} ops with
  | Some l => Some (rev (lout l))
  | None => None
  end.

Definition lm_scope (C : codec) (cvi cvt : N -> res N) (ic tc ac : codec) (stdt : list tres)
    (stdc : list (N * cres)) (cs : list (list op * (list (list N) * bool))) : list N :=
  let lo := lm_obs C cvi cvt ic tc ac stdt stdc in
  let inscope := filter (fun c => match lo (fst c) with Some _ => true | None => false end) cs in
  let agree := filter (fun c => match lo (fst c) with
                                | Some o => obs_eqb (o, false) (snd c)
                                | None => false
                                end) cs in
  [N.of_nat (length inscope); N.of_nat (length agree)].

(* ---------- the other half of "or refuse": where the list machine is undefined BECAUSE a range
   or an index is out of bounds, the bit-level machine panics ---------- *)
Section Refuses.
Variable C : codec.
Variable dbg : bool.
Hypothesis OK : codec_ok C.
Variables (cvi cvt : N -> res N) (ic tc ac : codec) (stdt : list tres) (stdc : list (N * cres)).
Local Notation B := (c_bits C).

Lemma lindex_oob xs f a b :
  (f <= 6)%N -> lindex xs f a b = None -> index C (encode B xs) f a b = None.
Proof.
  intros F H. unfold lindex in H. apply N.leb_le in F.
  assert (F' : (6 <? f)%N = false) by (apply N.ltb_ge; apply N.leb_le; exact F). rewrite F' in H.
  apply N.leb_le in F.
  destruct (index_forms C xs a b) as [E1 [E2 [E3 [E4 [E5 E6]]]]].
  assert (Hf : (f = 0 \/ f = 1 \/ f = 2 \/ f = 3 \/ f = 4 \/ f = 5 \/ f = 6)%N) by lia.
  destruct Hf as [-> | [-> | [-> | [-> | [-> | [-> | ->]]]]]]; cbn [ibounds] in H;
    match type of H with
    | (if (?s <=? ?e) && (?e <=? _) then _ else _) = _ =>
        destruct (Nat.leb_spec s e) as [L1|L1]; cbn [andb] in H;
        [destruct (Nat.leb_spec e (length xs)) as [L2|L2]; [discriminate|]|]
    end.
  - apply (index_range_out C OK). right. exact L2.
  - apply (index_range_out C OK). left. exact L1.
  - rewrite E1. apply (index_range_out C OK). right. exact L2.
  - rewrite E1. apply (index_range_out C OK). left. exact L1.
  - rewrite E2. apply (index_range_out C OK). right. exact L2.
  - lia.
  - rewrite E3. apply (index_range_out C OK). right. exact L2.
  - lia.
  - lia.
  - apply (index_from_out C OK). exact L1.
  - lia.
  - lia.
  - rewrite E6. apply (index_range_out C OK). right. exact L2.
  - lia.
Qed.

(* a nest of ranges, all of a known form, that leaves the sequence at some level *)
Fixpoint forms_ok (rs : list (N * N * N)) : bool :=
  match rs with
  | [] => true
  | (f, _, _) :: t => (f <=? 6)%N && forms_ok t
  end.

Lemma lapply_oob rs : forall xs,
  Forall (good C) xs -> forms_ok rs = true -> lapply xs rs = None ->
  apply_ranges C (encode B xs) rs = None.
Proof.
  induction rs as [|[[f a] b] t IH]; intros xs G F H; cbn [lapply apply_ranges forms_ok] in *;
    [discriminate|].
  apply andb_prop in F. destruct F as [F1 F2]. apply N.leb_le in F1. unfold nn.
  destruct (lindex xs f (N.to_nat a) (N.to_nat b)) as [ys|] eqn:E.
  - rewrite (lindex_sound C _ _ _ _ _ E). cbn [bind]. apply IH; try assumption.
    eapply lindex_good; eassumption.
  - rewrite (lindex_oob _ _ _ _ F1 E). reflexivity.
Qed.

Theorem slice_out_of_bounds_panics st l r rs xs :
  abs C st l -> lget l r = Some xs -> forms_ok rs = true -> lapply xs rs = None ->
  slice_of C st (SD r rs) = None.
Proof.
  intros A G F H. cbn [slice_of]. destruct (get_abs C _ _ _ _ A G) as [G1 G2]. rewrite G1. cbn [bind].
  apply lapply_oob; assumption.
Qed.

(* every observer / copy of an out-of-bounds slice panics, whatever else the script did before *)
Theorem out_of_bounds_observation_panics st l r rs xs :
  abs C st l -> lget l r = Some xs -> forms_ok rs = true -> lapply xs rs = None ->
  let d := SD r rs in
  let stepv := step C dbg cvi cvt ic tc ac stdt stdc st in
  stepv (OCodes d) = None /\ stepv (OLen d) = None /\ stepv (ODisplay d) = None /\
  stepv (OToOwned d) = None /\ stepv (ORevIter d) = None /\
  (forall i, stepv (ONth d i) = None) /\ (forall i, stepv (OGet d i) = None) /\
  (forall w, stepv (OWindows d w) = None) /\ (forall w, stepv (OChunks d w) = None) /\
  stepv (OToUsize d) = None /\ stepv (OToRev d) = None.
Proof.
  intros A G F H d stepv.
  pose proof (slice_out_of_bounds_panics _ _ _ _ _ A G F H) as S. fold d in S.
  unfold stepv. repeat split; intros; cbn [step]; rewrite S; reflexivity.
Qed.

(* positional access at or beyond the end: nth panics, get answers None *)
Theorem nth_beyond_end_panics st l d xs i :
  abs C st l -> lslice l d = Some xs -> length xs <= N.to_nat i ->
  step C dbg cvi cvt ic tc ac stdt stdc st (ONth d i) = None /\
  exists st', step C dbg cvi cvt ic tc ac stdt stdc st (OGet d i) = Some st' /\ out st' = [0%N] :: out st.
Proof.
  intros A S L. destruct (slice_abs C _ _ _ _ A S) as [S1 G]. split; cbn [step]; rewrite S1; cbn [bind].
  - unfold nn. rewrite (nth_sym_out C OK) by exact L. reflexivity.
  - unfold nn. rewrite (get_sym_spec C OK) by (apply good_small; exact G).
    assert (E : (length xs <=? N.to_nat i) = true) by (apply Nat.leb_le; exact L). rewrite E. cbn [bind].
    eexists. split; reflexivity.
Qed.

(* inserting beyond the end panics *)
Theorem insert_beyond_end_panics st l r i d xs ys :
  abs C st l -> lget l r = Some xs -> lslice l d = Some ys -> length xs < N.to_nat i ->
  step C dbg cvi cvt ic tc ac stdt stdc st (OInsert r i d) = None.
Proof.
  intros A G S L. destruct (get_abs C _ _ _ _ A G) as [G1 _].
  destruct (slice_abs C _ _ _ _ A S) as [S1 _]. cbn [step]. rewrite G1. cbn [bind]. rewrite S1. cbn [bind].
  unfold nn. rewrite (insert_spec C OK).
  assert (E : (N.to_nat i <=? length xs) = false) by (apply Nat.leb_gt; exact L). rewrite E. reflexivity.
Qed.

(* on every script the list machine accepts, the debug and the release build observe the same *)
Theorem profiles_agree ops l' :
  lm_run C cvi cvt ic tc ac stdt stdc {| lregs := []; lk := None; lct := []; lout := [] |} ops = Some l' ->
  VM.run C true cvi cvt ic tc ac stdt stdc ops = VM.run C false cvi cvt ic tc ac stdt stdc ops.
Proof.
  intros H. rewrite (script_refines C true OK _ _ _ _ _ _ _ _ _ H).
  rewrite (script_refines C false OK _ _ _ _ _ _ _ _ _ H). reflexivity.
Qed.

End Refuses.
