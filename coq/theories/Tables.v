(* Tables.v — result types of the regenerated finite tables (coq/gen/Real_<profile>.v). *)
From Coq Require Import List NArith Bool.
Import ListNotations.

(* STANDARD.try_to_amino *)
Inductive tres := TOk (a : N) | TAmbiguous | TInvalid | TOther | TPanic.
(* try_to_codon / to_codon *)
Inductive cres := COk (c : list N) | CAmbiguous | CInvalid | COther.
(* parse_width *)
Inductive wres := WOk (w : N) | WErr | WPanic.

Definition tres_eqb (a b : tres) : bool :=
  match a, b with
  | TOk x, TOk y => N.eqb x y
  | TAmbiguous, TAmbiguous | TInvalid, TInvalid | TOther, TOther | TPanic, TPanic => true
  | _, _ => false
  end.
