(* Serde.v — the serde DATA MODEL of Seq (bitvec's BitVec: head index, bit count, storage words)
   and of Kmer (the storage integer): deserialising a serialised value restores the live bits for
   any head offset and any content of the dead bits (C18).  The byte encodings of bincode and
   serde_json and bitvec's Deserialize validation are third-party code: modelled, not verified. *)
From Coq Require Import List Arith NArith Lia Bool.
From BioSeq Require Import Bits SeqModel.
Import ListNotations.

Record bvser := { s_head : nat; s_bits : nat; s_data : list N }.

Definition words_of (l : bits) : list N := map of_bits (chunks 64 l).

(* a bit vector in memory: [pre] dead bits before the head, the live bits, [post] dead bits up to a
   whole number of words; serialisation writes head, length and all the words *)
Definition ser (pre live post : bits) : bvser :=
  {| s_head := length pre; s_bits := length live; s_data := words_of (pre ++ live ++ post) |}.

(* deserialisation validates head < 64 and head + bits <= capacity, then views the span *)
Definition de (v : bvser) : option bits :=
  let all := words_bits (s_data v) in
  if (s_head v <? 64) && (s_head v + s_bits v <=? length all)
  then Some (firstn (s_bits v) (skipn (s_head v) all))
  else None.

Lemma words_roundtrip l n : length l = 64 * n -> words_bits (words_of l) = l.
Proof.
  intros H. unfold words_bits, words_of. rewrite map_map.
  destruct (@chunks_spec bool 64 n l (Nat.lt_0_succ 63) H) as [E [U _]].
  rewrite <- E at 2. f_equal.
  rewrite (map_ext_in _ (fun c => c)); [apply map_id|].
  intros c Hc. unfold uniform in U. rewrite Forall_forall in U. rewrite <- (U c Hc).
  apply to_bits_of_bits.
Qed.

(* the round trip preserves the live bits (hence length, symbols, hash feed, display), whatever
   the head offset and whatever the dead bits hold *)
Theorem de_ser pre live post n :
  length pre < 64 -> length (pre ++ live ++ post) = 64 * n ->
  de (ser pre live post) = Some live.
Proof.
  intros Hh Hn. unfold de, ser. cbn [s_head s_bits s_data].
  rewrite (words_roundtrip _ n Hn).
  assert (E1 : (length pre <? 64) = true) by (apply Nat.ltb_lt; exact Hh).
  assert (E2 : (length pre + length live <=? length (pre ++ live ++ post)) = true).
  { apply Nat.leb_le. rewrite !app_length. lia. }
  rewrite E1, E2. cbn [andb]. f_equal.
  rewrite skipn_app, skipn_all, Nat.sub_diag. cbn [app skipn].
  rewrite firstn_app, firstn_all, Nat.sub_diag, firstn_O, app_nil_r. reflexivity.
Qed.

(* k-mers serialise their storage integer *)
Definition kser (x : N) : N := x.
Definition kde (x : N) : N := x.
Theorem kde_kser x : kde (kser x) = x.
Proof. reflexivity. Qed.
