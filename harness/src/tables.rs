// Translator (a): evaluate every finite-domain function of the compiled code over its whole
// domain and print its graph.  Output is line oriented: `key v0 v1 ...`, `-` = None / panic.
use crate::vc::{guard, VC};
use bio_seq::codec::{degenerate, masked, text};
use bio_seq::prelude::*;
use bio_seq::translation::{PartialTranslationTable, TranslationError, TranslationTable, STANDARD};

fn opt(v: Option<u8>) -> String {
    match v {
        Some(x) => x.to_string(),
        None => "-".to_string(),
    }
}

fn line(key: &str, vals: impl Iterator<Item = String>) {
    let v: Vec<String> = vals.collect();
    println!("{} {}", key, v.join(" "));
}

fn codec_tables<A: VC>() {
    println!("codec {}", A::NAME);
    println!("bits {}", A::BITS);
    println!("has_comp {}", A::HAS_COMP as u8);
    println!("has_mask {}", A::HAS_MASK as u8);
    // `u8::from(symbol)` (where the codec has it) must be the symbol's code: a disagreement shows up as
    // an impossible item code
    line(
        "items",
        A::items().map(|x| match x.sym_into_u8() {
            Some(v) if v != x.to_bits() => (1000 + v as u32).to_string(),
            _ => x.to_bits().to_string(),
        }),
    );
    let all = 0u16..=255;
    line(
        "try_bits",
        all.clone()
            .map(|b| opt(guard(|| A::try_from_bits(b as u8).map(|s| s.to_bits())).flatten())),
    );
    line(
        "un_bits",
        all.clone()
            .map(|b| opt(guard(|| A::unsafe_from_bits(b as u8).to_bits()))),
    );
    line(
        "try_ascii",
        all.clone()
            .map(|b| opt(guard(|| A::try_from_ascii(b as u8).map(|s| s.to_bits())).flatten())),
    );
    line(
        "un_ascii",
        all.clone()
            .map(|b| opt(guard(|| A::unsafe_from_ascii(b as u8).to_bits()))),
    );
    // functions of a *symbol*: indexed by canonical code (the code a decoder returns)
    let sym = |b: u16| -> Option<A> {
        let s = guard(|| A::try_from_bits(b as u8)).flatten()?;
        if s.to_bits() as u16 == b {
            Some(s)
        } else {
            None
        }
    };
    line(
        "char",
        all.clone().map(|b| match sym(b) {
            Some(s) => match guard(|| s.to_char()) {
                Some(c) if (c as u32) < 256 => (c as u32).to_string(),
                _ => "-".to_string(),
            },
            None => "-".to_string(),
        }),
    );
    line(
        "comp",
        all.clone().map(|b| match sym(b) {
            Some(s) => opt(guard(|| s.sym_comp().map(|x| x.to_bits())).flatten()),
            None => "-".to_string(),
        }),
    );
    line(
        "mask",
        all.clone().map(|b| match sym(b) {
            Some(s) => opt(guard(|| s.sym_mask().map(|x| x.to_bits())).flatten()),
            None => "-".to_string(),
        }),
    );
    line(
        "unmask",
        all.clone().map(|b| match sym(b) {
            Some(s) => opt(guard(|| s.sym_unmask().map(|x| x.to_bits())).flatten()),
            None => "-".to_string(),
        }),
    );
    println!("end");
}

fn conversions() {
    println!("section conv");
    line(
        "dna_to_iupac",
        Dna::items().map(|d| format!("{}:{}", d.to_bits(), Iupac::from(d).to_bits())),
    );
    line(
        "dna_to_text",
        Dna::items().map(|d| format!("{}:{}", d.to_bits(), text::Dna::from(d).to_bits())),
    );
    line(
        "text_to_dna",
        (0u16..=255).map(|b| {
            let t = text::Dna::unsafe_from_bits(b as u8);
            match guard(|| Dna::try_from(t)) {
                Some(Ok(d)) => d.to_bits().to_string(),
                Some(Err(ParseBioError::UnrecognisedBase(x))) => format!("E{x}"),
                Some(Err(_)) => "E?".to_string(),
                None => "P".to_string(),
            }
        }),
    );
    println!("end");
}

fn translation() {
    println!("section translation");
    // STANDARD.to_amino on all 64 DNA codons (index = c0 + 4 c1 + 16 c2)
    line(
        "std_to_amino",
        (0u8..64).map(|i| {
            let syms = [i & 3, (i >> 2) & 3, (i >> 4) & 3];
            let seq: Seq<Dna> = syms.iter().map(|&b| Dna::unsafe_from_bits(b)).collect();
            opt(guard(|| STANDARD.to_amino(&seq).to_bits()))
        }),
    );
    // lengths other than 3 must panic (assert!)
    line(
        "std_to_amino_badlen",
        [0usize, 1, 2, 4, 5].iter().map(|&n| {
            let seq: Seq<Dna> = (0..n).map(|_| Dna::A).collect();
            match guard(|| STANDARD.to_amino(&seq).to_bits()) {
                Some(x) => format!("{n}:{x}"),
                None => format!("{n}:P"),
            }
        }),
    );
    // STANDARD.try_to_amino on all 16^3 IUPAC codons (index = c0 + 16 c1 + 256 c2, raw codes)
    line(
        "std_try_to_amino",
        (0u16..4096).map(|i| {
            let syms = [(i & 15) as u8, ((i >> 4) & 15) as u8, ((i >> 8) & 15) as u8];
            let seq: Seq<Iupac> = syms.iter().map(|&b| Iupac::unsafe_from_bits(b)).collect();
            match guard(|| STANDARD.try_to_amino(&seq)) {
                Some(Ok(a)) => a.to_bits().to_string(),
                Some(Err(TranslationError::AmbiguousTranslation(_))) => "A".to_string(),
                Some(Err(TranslationError::InvalidCodon(_))) => "I".to_string(),
                Some(Err(_)) => "E".to_string(),
                None => "P".to_string(),
            }
        }),
    );
    line(
        "std_try_to_amino_badlen",
        [0usize, 1, 2, 4, 5, 6, 9].iter().map(|&n| {
            let seq: Seq<Iupac> = (0..n).map(|_| Iupac::N).collect();
            match guard(|| STANDARD.try_to_amino(&seq)) {
                Some(Ok(a)) => format!("{n}:{}", a.to_bits()),
                Some(Err(TranslationError::InvalidCodon(c))) => format!("{n}:I{}", c.len()),
                Some(Err(_)) => format!("{n}:E"),
                None => format!("{n}:P"),
            }
        }),
    );
    // reverse translation for every amino symbol: codes of the codon or error kind
    line(
        "std_try_to_codon",
        Amino::items().map(|a| {
            let r = guard(|| STANDARD.try_to_codon(a));
            let v = match r {
                Some(Ok(c)) => c
                    .iter()
                    .map(|s| s.to_bits().to_string())
                    .collect::<Vec<_>>()
                    .join(","),
                Some(Err(TranslationError::AmbiguousCodon(_))) => "A".to_string(),
                Some(Err(TranslationError::InvalidAmino(_))) => "V".to_string(),
                Some(Err(_)) => "E".to_string(),
                None => "P".to_string(),
            };
            format!("{}:{}", a.to_bits(), v)
        }),
    );
    line(
        "std_to_codon",
        Amino::items().map(|a| {
            let r = guard(|| TranslationTable::<Dna, Amino>::to_codon(&STANDARD, a));
            let v = match r {
                Some(Ok(c)) => c
                    .iter()
                    .map(|s| s.to_bits().to_string())
                    .collect::<Vec<_>>()
                    .join(","),
                Some(Err(TranslationError::AmbiguousCodon(_))) => "A".to_string(),
                Some(Err(_)) => "E".to_string(),
                None => "P".to_string(),
            };
            format!("{}:{}", a.to_bits(), v)
        }),
    );
    println!("end");
}

#[cfg(feature = "derive-internals")]
fn macros() {
    use crate::derive_seqarray::{dna_seq, iupac_seq};
    println!("section macro");
    // per-character tables of the literal macros: every 1-character ASCII literal
    for (name, f) in [
        ("macro_dna", dna_seq as fn(&syn::LitStr) -> Result<(usize, Vec<u8>), syn::Error>),
        ("macro_iupac", iupac_seq),
    ] {
        line(
            name,
            (0u8..128).map(|c| {
                let s = String::from_utf8(vec![c]).unwrap();
                let lit = syn::LitStr::new(&s, proc_macro2::Span::call_site());
                match guard(|| f(&lit)) {
                    Some(Ok((n, bits))) => format!(
                        "{}/{}",
                        n,
                        bits.iter().map(|b| b.to_string()).collect::<Vec<_>>().join("")
                    ),
                    Some(Err(_)) => "E".to_string(),
                    None => "P".to_string(),
                }
            }),
        );
    }
    println!("end");
}

#[cfg(feature = "derive-internals")]
fn derive_width() {
    use crate::derive_codec::parse_width;
    println!("section width");
    // parse_width over its whole numeric domain: max discriminant 0..=255, #[bits(n)] absent or 0..=9
    let none: Vec<syn::Attribute> = vec![];
    line(
        "width_none",
        (0u16..=255).map(|m| match guard(|| parse_width(&none, m as u8)) {
            Some(Ok(w)) => w.to_string(),
            Some(Err(_)) => "E".to_string(),
            None => "P".to_string(),
        }),
    );
    for n in 0u8..=9 {
        let lit = syn::LitInt::new(&n.to_string(), proc_macro2::Span::call_site());
        let attrs: Vec<syn::Attribute> = vec![syn::parse_quote!(#[bits(#lit)])];
        line(
            &format!("width_{n}"),
            (0u16..=255).map(|m| match guard(|| parse_width(&attrs, m as u8)) {
                Some(Ok(w)) => w.to_string(),
                Some(Err(_)) => "E".to_string(),
                None => "P".to_string(),
            }),
        );
    }
    println!("end");
}

fn kmer_tables() {
    println!("section kmer");
    // Kmer<Dna,4>::rev on all 256 values : the 2-bit block reversal table as observed through the API
    line(
        "rev2bit_k4",
        (0usize..256).map(|x| {
            let k: Kmer<Dna, 4> = Kmer::from(x);
            match guard(|| k.to_rev()) {
                Some(r) => r.bs.to_string(),
                None => "P".to_string(),
            }
        }),
    );
    println!("end");
}

/// Without the derive crate's internals (their names or signatures changed), the per-character tables
/// of the literal macros are SYNTHESISED FROM THE SPECIFICATION (a character is accepted exactly when
/// the run-time parser accepts it, and packs to that symbol's code); the compiled macros are then
/// validated against these tables only through the generated programs (C16).
#[cfg(not(feature = "derive-internals"))]
fn macros() {
    println!("section macro");
    fn table<A: VC>(name: &str) {
        line(
            name,
            (0u8..128).map(|c| match guard(|| A::try_from_ascii(c)).flatten() {
                Some(x) => format!(
                    "1/{}",
                    (0..A::BITS).map(|j| ((x.to_bits() >> j) & 1).to_string()).collect::<Vec<_>>().join("")
                ),
                None => "E".to_string(),
            }),
        );
    }
    table::<Dna>("macro_dna");
    table::<Iupac>("macro_iupac");
    println!("end");
}

/// ... and the width table is the specification itself: the least n with max < 2^n, a declared width
/// below it being an error (the compiled derive is validated against it through the generated enum
/// programs, C17).
#[cfg(not(feature = "derive-internals"))]
fn derive_width() {
    println!("section width");
    let minbits = |m: u16| (0u32..=8).find(|n| (m as u32) < (1u32 << n)).unwrap();
    line("width_none", (0u16..=255).map(|m| minbits(m).to_string()));
    for n in 0u32..=9 {
        line(
            &format!("width_{n}"),
            (0u16..=255).map(|m| if n < minbits(m) { "E".to_string() } else { n.to_string() }),
        );
    }
    println!("end");
}

pub fn dump() {
    println!(
        "profile debug_assertions={} ",
        cfg!(debug_assertions) as u8
    );
    println!("derive_internals {}", cfg!(feature = "derive-internals") as u8);
    codec_tables::<Dna>();
    codec_tables::<Iupac>();
    codec_tables::<Amino>();
    codec_tables::<text::Dna>();
    codec_tables::<masked::Dna>();
    codec_tables::<masked::Iupac>();
    codec_tables::<degenerate::Dna>();
    conversions();
    translation();
    macros();
    derive_width();
    kmer_tables();
}
