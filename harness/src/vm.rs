// The "sequence VM": interprets scripts against the real bio-seq API.
// One script per input line; ops separated by ';', numeric tokens separated by blanks.
// One output line per script: observations separated by " | ", each a list of numbers.
// A Rust panic ends the script with the observation "P".
use crate::vc::{guard, VC};
use bio_seq::codec::{degenerate, masked, text};
use bio_seq::kmer::KmerStorage;
use bio_seq::prelude::*;
use bio_seq::translation::{
    CodonTable, PartialTranslationTable, TranslationError, TranslationTable, STANDARD,
};
use core::marker::PhantomData;
use std::collections::HashMap;
use std::hash::{Hash, Hasher};

pub struct Rec(pub Vec<u8>);
impl Hasher for Rec {
    fn finish(&self) -> u64 {
        0
    }
    fn write(&mut self, b: &[u8]) {
        self.0.extend_from_slice(b)
    }
}
pub fn feed<T: Hash + ?Sized>(t: &T) -> Vec<u8> {
    let mut r = Rec(vec![]);
    t.hash(&mut r);
    r.0
}

#[derive(Clone, Debug)]
pub struct Rg {
    form: u8,
    a: usize,
    b: usize,
}
#[derive(Clone, Debug)]
pub struct Sd {
    reg: usize,
    ranges: Vec<Rg>,
}

pub struct Toks<'a> {
    t: Vec<&'a str>,
    i: usize,
}
impl<'a> Toks<'a> {
    fn new(s: &'a str) -> Self {
        Toks {
            t: s.split_whitespace().collect(),
            i: 0,
        }
    }
    fn word(&mut self) -> &'a str {
        let w = self.t[self.i];
        self.i += 1;
        w
    }
    fn num(&mut self) -> usize {
        self.word().parse::<usize>().expect("number")
    }
    fn u64(&mut self) -> u64 {
        self.word().parse::<u64>().expect("u64")
    }
    fn list(&mut self) -> Vec<usize> {
        let n = self.num();
        (0..n).map(|_| self.num()).collect()
    }
    fn bytes(&mut self) -> Vec<u8> {
        self.list().into_iter().map(|x| x as u8).collect()
    }
    fn sd(&mut self) -> Sd {
        let reg = self.num();
        let n = self.num();
        let ranges = (0..n)
            .map(|_| Rg {
                form: self.num() as u8,
                a: self.num(),
                b: self.num(),
            })
            .collect();
        Sd { reg, ranges }
    }
}

fn apply_range<'a, A: VC>(s: &'a SeqSlice<A>, r: &Rg) -> &'a SeqSlice<A> {
    match r.form {
        0 => &s[r.a..r.b],
        1 => &s[r.a..=r.b],
        2 => &s[..r.b],
        3 => &s[..=r.b],
        4 => &s[r.a..],
        5 => &s[..],
        6 => &s[r.a],
        _ => panic!("bad range form"),
    }
}

/// the same range forms with the OWNED sequence as the indexed value (an `Index` impl on `Seq`
/// itself, should one exist, takes precedence over the ones reached through `Deref`)
fn apply_range_owned<'a, A: VC>(s: &'a Seq<A>, r: &Rg) -> &'a SeqSlice<A> {
    match r.form {
        0 => &s[r.a..r.b],
        1 => &s[r.a..=r.b],
        2 => &s[..r.b],
        3 => &s[..=r.b],
        4 => &s[r.a..],
        5 => &s[..],
        6 => &s[r.a],
        _ => panic!("bad range form"),
    }
}

fn slice_of<'a, A: VC>(regs: &'a [Seq<A>], sd: &Sd) -> &'a SeqSlice<A> {
    let owned: &Seq<A> = &regs[sd.reg];
    let mut it = sd.ranges.iter();
    let mut s: &SeqSlice<A> = match it.next() {
        None => owned,
        Some(r) => {
            let via_owned = apply_range_owned(owned, r);
            let whole: &SeqSlice<A> = owned;
            let via_slice = apply_range(whole, r);
            if !core::ptr::eq(via_owned, via_slice) {
                assert!(
                    lencodes(via_owned) == lencodes(via_slice),
                    "indexing the owned sequence and its borrowed slice select different symbols"
                );
            }
            via_owned
        }
    };
    for r in it {
        s = apply_range(s, r);
    }
    s
}

fn sym<A: VC>(c: usize) -> A {
    A::try_from_bits(c as u8).expect("generator produced an invalid symbol code")
}

fn codes<A: VC>(s: &SeqSlice<A>) -> Vec<String> {
    s.iter().map(|x| x.to_bits().to_string()).collect()
}

fn lencodes<A: VC>(s: &SeqSlice<A>) -> Vec<String> {
    let mut v = vec![s.len().to_string()];
    v.extend(codes(s));
    v
}

/// u128 <-> storage
pub trait KS: KmerStorage + Hash + Ord + serde::Serialize + serde::de::DeserializeOwned {
    const W: u8;
    fn to_u128(self) -> u128;
    fn from_u128(x: u128) -> Self;
    /// build a k-mer from an integer through the public `From` impls where the library has them
    fn kmer_from_int<A: VC, const K: usize>(x: u128) -> Kmer<A, K, Self>;
}
impl KS for usize {
    const W: u8 = 0;
    fn to_u128(self) -> u128 {
        self as u128
    }
    fn from_u128(x: u128) -> Self {
        x as usize
    }
    fn kmer_from_int<A: VC, const K: usize>(x: u128) -> Kmer<A, K, Self> {
        Kmer::<A, K, usize>::from(x as usize)
    }
}
impl KS for u64 {
    const W: u8 = 1;
    fn to_u128(self) -> u128 {
        self as u128
    }
    fn from_u128(x: u128) -> Self {
        x as u64
    }
    fn kmer_from_int<A: VC, const K: usize>(x: u128) -> Kmer<A, K, Self> {
        if x & 1 == 0 {
            Kmer::<A, K, u64>::from(x as u64)
        } else {
            Kmer::<A, K, u64>::from(x as usize)
        }
    }
}
impl KS for u128 {
    const W: u8 = 2;
    fn to_u128(self) -> u128 {
        self
    }
    fn from_u128(x: u128) -> Self {
        x
    }
    fn kmer_from_int<A: VC, const K: usize>(x: u128) -> Kmer<A, K, Self> {
        Kmer {
            _p: PhantomData,
            bs: x,
        }
    }
}

pub struct St<A: VC> {
    pub regs: Vec<Seq<A>>,
    pub kk: usize,
    pub kw: u8,
    pub kv: u128,
    pub ct: Vec<CodonTable<A, Amino>>,
    pub out: Vec<String>,
}

fn mk<A: VC, const K: usize, S: KS>(v: u128) -> Kmer<A, K, S> {
    Kmer {
        _p: PhantomData,
        bs: S::from_u128(v),
    }
}

fn parse_err(e: &ParseBioError) -> String {
    match e {
        ParseBioError::UnrecognisedBase(b) => format!("1 {b}"),
        // payloads the properties do not speak about are not observed
        ParseBioError::MismatchedLength(_, _) => "2".to_string(),
        ParseBioError::SequenceTooLong(_, _) => "3".to_string(),
    }
}

/// k-mer operations generic in the storage type
pub fn kop_any<A: VC, const K: usize, S: KS>(st: &mut St<A>, name: &str, t: &mut Toks)
where
    Kmer<A, K, S>: serde::Serialize + serde::de::DeserializeOwned,
{
    let cur: Kmer<A, K, S> = mk(st.kv);
    let set = |st: &mut St<A>, k: Kmer<A, K, S>| {
        st.kk = K;
        st.kw = S::W;
        st.kv = k.bs.to_u128();
    };
    match name {
        "kfrom" => {
            let sd = t.sd();
            let s = slice_of(&st.regs, &sd);
            match Kmer::<A, K, S>::try_from(s) {
                Ok(k) => {
                    set(st, k);
                    st.out.push("0".into())
                }
                Err(e) => st.out.push(parse_err(&e)),
            }
        }
        "kunsafe" => {
            let sd = t.sd();
            let s = slice_of(&st.regs, &sd);
            let k = Kmer::<A, K, S>::unsafe_from_seqslice(s);
            set(st, k);
        }
        "kstr" => {
            let b = t.bytes();
            let s = String::from_utf8(b).expect("utf8");
            match Kmer::<A, K, S>::from_str(&s) {
                Ok(k) => {
                    set(st, k);
                    st.out.push("0".into())
                }
                // "a wrong length is an error": which error is reported for a text that is both of the
                // wrong length and invalid is not specified, nor is the payload of the bad-character error
                Err(_) if s.len() != K => st.out.push("2".into()),
                Err(ParseBioError::UnrecognisedBase(_)) => st.out.push("1".into()),
                Err(e) => st.out.push(parse_err(&e)),
            }
        }
        "kint" => {
            let lo = t.u64() as u128;
            let hi = t.u64() as u128;
            set(st, S::kmer_from_int::<A, K>(lo | (hi << 64)));
        }
        "kobs" => {
            let v = cur.bs.to_u128();
            let mut o = vec![(v as u64).to_string(), ((v >> 64) as u64).to_string()];
            o.push(cur.len().to_string());
            o.extend(cur.to_string().bytes().map(|b| b.to_string()));
            st.out.push(o.join(" "));
        }
        "krotl" => {
            let n = t.num() as u32;
            set(st, cur.rotated_left(n));
        }
        "krotr" => {
            let n = t.num() as u32;
            set(st, cur.rotated_right(n));
        }
        "kpushl" => {
            let c = t.num();
            set(st, cur.pushl(sym::<A>(c)));
        }
        "kpushr" => {
            let c = t.num();
            set(st, cur.pushr(sym::<A>(c)));
        }
        "keq" => {
            let m = t.num();
            let sd = t.sd();
            let s = slice_of(&st.regs, &sd);
            let r = match m {
                0 => cur == *s,
                1 => cur == s,
                _ => panic!("keq mode"),
            };
            st.out.push((r as u8).to_string());
        }
        "khasheq" => {
            let sd = t.sd();
            let s = slice_of(&st.regs, &sd);
            st.out.push(((feed(&cur) == feed(s)) as u8).to_string());
        }
        "kserde" => {
            let f = t.num();
            let back: Option<Kmer<A, K, S>> = if f == 0 {
                bincode::serialize(&cur)
                    .ok()
                    .and_then(|b| bincode::deserialize(&b).ok())
            } else {
                serde_json::to_string(&cur)
                    .ok()
                    .and_then(|b| serde_json::from_str(&b).ok())
            };
            match back {
                Some(k) => {
                    set(st, k);
                    st.out.push("0".into())
                }
                None => st.out.push("1".into()),
            }
        }
        _ => panic!("unknown kmer op {name}"),
    }
}

/// k-mer operations only available for the default usize storage
pub fn kop_usize<A: VC, const K: usize>(st: &mut St<A>, name: &str, t: &mut Toks) -> bool {
    let cur: Kmer<A, K, usize> = Kmer::from(st.kv as usize);
    let set = |st: &mut St<A>, k: Kmer<A, K, usize>| {
        st.kk = K;
        st.kw = 0;
        st.kv = k.bs as u128;
    };
    match name {
        "kderef" => {
            let s: &SeqSlice<A> = &cur;
            st.out.push(lencodes(s).join(" "));
        }
        "kasref" => {
            let s: &SeqSlice<A> = cur.as_ref();
            st.out.push(lencodes(s).join(" "));
        }
        "ktoseq" => {
            let s: Seq<A> = Seq::from(cur);
            st.regs.push(s);
        }
        "krev" => {
            let mut k = cur;
            k.rev();
            let mut k2 = cur;
            <Kmer<A, K, usize> as ReverseMut>::rev(&mut k2);
            assert!(k == k2, "Kmer::rev: method call and trait call differ");
            set(st, k);
        }
        "ktorev" => {
            let a = cur.to_rev();
            let b = <Kmer<A, K, usize> as Reverse>::to_rev(&cur);
            assert!(a == b, "Kmer::to_rev: method call and trait call differ");
            set(st, a);
        }
        "kview" => {
            // slice methods with the k-mer itself as the receiver (reached through Deref unless the
            // k-mer type has a method of that name)
            let n = t.num();
            let mut o = vec![cur.len().to_string()];
            o.extend(cur.iter().map(|x| x.to_bits().to_string()));
            assert!(cur.is_empty() == (K == 0), "Kmer::is_empty");
            let viewed: &SeqSlice<A> = &cur;
            assert!(crate::vc::same_codes(&cur[..], viewed), "indexing a k-mer");
            let r1: Vec<u8> = cur.rev_iter().map(|x| x.to_bits()).collect();
            let mut r2: Vec<u8> = cur.iter().map(|x| x.to_bits()).collect();
            r2.reverse();
            assert!(r1 == r2, "Kmer::rev_iter");
            for i in 0..K {
                assert!(cur.nth(i).to_bits() == r2[K - 1 - i], "Kmer::nth");
            }
            assert!(cur.to_string() == viewed.to_string(), "Display of a k-mer and of its slice differ");
            o.push("777".into());
            for i in 0..n {
                match cur.get(i) {
                    Some(x) => {
                        o.push("1".into());
                        o.push(x.to_bits().to_string());
                    }
                    None => o.push("0".into()),
                }
            }
            st.out.push(o.join(" "));
        }
        "kfromseq" => {
            let r = t.num();
            match Kmer::<A, K>::try_from(st.regs[r].clone()) {
                Ok(k) => {
                    set(st, k);
                    st.out.push("0".into())
                }
                Err(e) => st.out.push(parse_err(&e)),
            }
        }
        "keqseq" => {
            let r = t.num();
            st.out.push(((cur == st.regs[r]) as u8).to_string());
        }
        "keqstr" => {
            let b = t.bytes();
            let s = String::from_utf8(b).expect("utf8");
            st.out.push(((cur == s.as_str()) as u8).to_string());
        }
        "kusize" => {
            let v: usize = usize::from(&cur);
            st.out.push(v.to_string());
        }
        "kmers" => {
            let sd = t.sd();
            let s = slice_of(&st.regs, &sd);
            let items: Vec<Kmer<A, K>> = s.kmers::<K>().collect();
            let bad = iter_protocol(|| s.kmers::<K>(), &items);
            if bad != 0 {
                st.out.push(format!("4294967293 {bad}"));
                return true;
            }
            let v: Vec<String> = items.iter().map(|k| k.bs.to_string()).collect();
            let mut o = vec![v.len().to_string()];
            o.extend(v);
            st.out.push(o.join(" "));
        }
        _ => return false,
    }
    true
}


/// ordering: only codecs that are themselves `Ord` give an `Ord` k-mer
pub fn kop_ord<A: VC + Ord, const K: usize, S: KS>(st: &mut St<A>, name: &str, t: &mut Toks) -> bool {
    let cur: Kmer<A, K, S> = mk(st.kv);
    match name {
        "kcmp" => {
            let lo = t.u64() as u128;
            let hi = t.u64() as u128;
            let other: Kmer<A, K, S> = mk(lo | (hi << 64));
            let c = match cur.cmp(&other) {
                core::cmp::Ordering::Less => 0,
                core::cmp::Ordering::Equal => 1,
                core::cmp::Ordering::Greater => 2,
            };
            let pc = match cur.partial_cmp(&other) {
                Some(core::cmp::Ordering::Less) => 0,
                Some(core::cmp::Ordering::Equal) => 1,
                Some(core::cmp::Ordering::Greater) => 2,
                None => 3,
            };
            st.out
                .push(format!("{} {} {}", c, pc, (cur == other) as u8));
        }
        _ => return false,
    }
    true
}

pub fn kop_ord_usize<A: VC + Ord, const K: usize>(st: &mut St<A>, name: &str, t: &mut Toks) -> bool {
    match name {
        "kmin" => {
            // the minimiser: min / max over the k-mers of a slice
            let sd = t.sd();
            let s = slice_of(&st.regs, &sd);
            let mn = s.kmers::<K>().min();
            let mx = s.kmers::<K>().max();
            match (mn, mx) {
                (Some(a), Some(b)) => st.out.push(format!("1 {} {}", a.bs, b.bs)),
                _ => st.out.push("0".into()),
            }
        }
        _ => return false,
    }
    true
}

pub fn kop_dna<const K: usize>(st: &mut St<Dna>, name: &str) -> bool {
    let cur: Kmer<Dna, K, usize> = Kmer::from(st.kv as usize);
    let set = |st: &mut St<Dna>, k: Kmer<Dna, K, usize>| {
        st.kk = K;
        st.kw = 0;
        st.kv = k.bs as u128;
    };
    match name {
        "kcomp" => {
            let mut k = cur;
            k.comp();
            let mut k2 = cur;
            <Kmer<Dna, K, usize> as ComplementMut>::comp(&mut k2);
            assert!(k == k2, "Kmer::comp: method call and trait call differ");
            set(st, k);
        }
        "ktocomp" => {
            let a = cur.to_comp();
            let b = <Kmer<Dna, K, usize> as Complement>::to_comp(&cur);
            assert!(a == b, "Kmer::to_comp: method call and trait call differ");
            set(st, a)
        }
        "krevcomp" => {
            let mut k = cur;
            k.revcomp();
            let mut k2 = cur;
            <Kmer<Dna, K, usize> as ReverseComplementMut>::revcomp(&mut k2);
            assert!(k == k2, "Kmer::revcomp: method call and trait call differ");
            set(st, k);
        }
        "ktorevcomp" => {
            let a = cur.to_revcomp();
            let b = <Kmer<Dna, K, usize> as ReverseComplement>::to_revcomp(&cur);
            assert!(a == b, "Kmer::to_revcomp: method call and trait call differ");
            set(st, a)
        }
        _ => return false,
    }
    true
}

/// per-codec dispatch over the monomorphised (K, storage) grid
pub trait KD: VC {
    fn kdispatch(st: &mut St<Self>, k: usize, w: u8, name: &str, t: &mut Toks);
    fn conv(_s: &SeqSlice<Self>, _t: usize) -> Option<Vec<String>> {
        None
    }
    fn contains(_m: usize, _regs: &[Seq<Self>], _a: &Sd, _b: &Sd) -> Option<bool> {
        None
    }
    fn seq_cmp(a: &Seq<Self>, b: &Seq<Self>) -> Option<(core::cmp::Ordering, Option<core::cmp::Ordering>)> {
        use core::cmp::Ordering::*;
        let c = Ord::cmp(a, b);
        assert!(a.cmp(b) == c, "Seq::cmp: method call and trait call differ");
        // the operators and the provided methods agree with cmp
        assert!((a < b) == (c == Less) && (a <= b) == (c != Greater), "Seq: < / <= disagree with cmp");
        assert!((a > b) == (c == Greater) && (a >= b) == (c != Less), "Seq: > / >= disagree with cmp");
        assert!((a != b) == !(a == b), "Seq: != is not the negation of ==");
        let mx = Ord::max(a, b);
        let mn = Ord::min(a, b);
        assert!(crate::vc::same_codes(mx, if c == Greater { a } else { b }), "Seq: max disagrees with cmp");
        assert!(crate::vc::same_codes(mn, if c == Greater { b } else { a }), "Seq: min disagrees with cmp");
        Some((c, a.partial_cmp(b)))
    }
    /// observations on a SeqArray built from codes (codecs of the literal macros only)
    fn arr(_cs: &[usize], _other: &SeqSlice<Self>) -> Option<Vec<String>> {
        None
    }
    fn xlate(_m: usize, _s: &SeqSlice<Self>) -> Option<Vec<String>> {
        None
    }
    fn xlatei(_s: &SeqSlice<Self>) -> Option<String> {
        None
    }
    fn xcodon(_a: usize) -> Option<String> {
        None
    }
}

macro_rules! kd_arms {
    ($st:ident, $k:ident, $w:ident, $name:ident, $t:ident, $dna:tt, $ord:tt ; us: [$($ku:literal),*] ; u64: [$($k6:literal),*] ; u128: [$($k8:literal),*]) => {
        match ($k, $w) {
            $( ($ku, 0) => {
                if kd_arms!(@dna $dna, $st, $ku, $name) { return; }
                if kd_arms!(@ordu $ord, $st, $ku, $name, $t) { return; }
                if kd_arms!(@ord $ord, $st, $ku, usize, $name, $t) { return; }
                if !kop_usize::<Self, $ku>($st, $name, $t) { kop_any::<Self, $ku, usize>($st, $name, $t) }
            } )*
            $( ($k6, 1) => {
                if kd_arms!(@ord $ord, $st, $k6, u64, $name, $t) { return; }
                kop_any::<Self, $k6, u64>($st, $name, $t)
            } )*
            $( ($k8, 2) => {
                if kd_arms!(@ord $ord, $st, $k8, u128, $name, $t) { return; }
                kop_any::<Self, $k8, u128>($st, $name, $t)
            } )*
            _ => panic!("(K,W) = ({},{}) not in the monomorphised grid of this codec", $k, $w),
        }
    };
    (@dna true, $st:ident, $ku:literal, $name:ident) => { kop_dna::<$ku>($st, $name) };
    (@dna false, $st:ident, $ku:literal, $name:ident) => { false };
    (@ord true, $st:ident, $kk:literal, $s:ty, $name:ident, $t:ident) => { kop_ord::<Self, $kk, $s>($st, $name, $t) };
    (@ord false, $st:ident, $kk:literal, $s:ty, $name:ident, $t:ident) => { false };
    (@ordu true, $st:ident, $kk:literal, $name:ident, $t:ident) => { kop_ord_usize::<Self, $kk>($st, $name, $t) };
    (@ordu false, $st:ident, $kk:literal, $name:ident, $t:ident) => { false };
}

/// `k`: a one-word array, for which `Kmer == SeqArray` exists; `n`: a longer one (the k-mer part is not
/// even instantiated: an array type whose backing store is too small for its length must not be named)
macro_rules! arr_kmer_part {
    (k, $o:ident, $n:literal, $cs:ident, $other:ident) => {
        $o.push("777".into());
        $o.extend(arr_kmer::<Self, $n>($cs, $other));
    };
    (n, $o:ident, $n:literal, $cs:ident, $other:ident) => {};
}

macro_rules! arr_dispatch {
    ($cs:ident, $other:ident, $bits:expr, [$(($n:literal, $w:literal, $k:tt)),*]) => {
        match $cs.len() {
            $( $n => {
                #[allow(unused_mut)]
                let mut o = arr_obs::<Self, $n, $w>($cs, $other, false);
                arr_kmer_part!($k, o, $n, $cs, $other);
                Some(o)
            } )*
            _ => None,
        }
    };
}

fn arr_kmer<A: VC, const N: usize>(cs: &[usize], other: &SeqSlice<A>) -> Vec<String> {
    use bio_seq::seq::SeqArray;
    let a = SeqArray::<A, N, 1> {
        _p: PhantomData,
        ba: bitvec::array::BitArray::new(arr_words::<1>(cs, A::BITS as usize)),
    };
    let sl: &SeqSlice<A> = &a;
    let k: Kmer<A, N> = Kmer::try_from(sl).expect("kmer from array");
    let mut o = vec![((k == a) as u8).to_string(), ((k == &a) as u8).to_string()];
    {
        let k64: Kmer<A, N, u64> = Kmer::try_from(sl).expect("u64 kmer from array");
        let k128: Kmer<A, N, u128> = Kmer::try_from(sl).expect("u128 kmer from array");
        assert!(k64 == a && k64 == &a && k128 == a && k128 == &a, "Kmer<u64/u128> == SeqArray of the same content");
        if let (Ok(x), Ok(y)) = (Kmer::<A, N, u64>::try_from(other), Kmer::<A, N, u128>::try_from(other)) {
            let same = crate::vc::same_codes(other, sl);
            assert!((x == a) == same && (y == a) == same && (x == &a) == same && (y == &a) == same,
                    "Kmer<u64/u128> == SeqArray disagrees with the contents");
        }
    }
    // a k-mer with other content (when the other slice has the right length)
    match Kmer::<A, N>::try_from(other) {
        Ok(k2) => {
            o.push(((k2 == a) as u8).to_string());
            o.push(((k2 == &a) as u8).to_string());
        }
        Err(_) => {
            o.push("2".into());
            o.push("2".into());
        }
    }
    o
}

impl KD for Dna {
    fn arr(cs: &[usize], other: &SeqSlice<Self>) -> Option<Vec<String>> {
        use bio_seq::seq::SeqArray;
        let mut o = arr_dispatch!(cs, other, 2, [(1, 1, k), (2, 1, k), (3, 1, k), (4, 1, k), (5, 1, k), (8, 1, k), (16, 1, k), (31, 1, k), (32, 1, k), (33, 2, n), (40, 2, n), (64, 2, n), (65, 3, n)])?;
        // From<&SeqArray<Dna, N, W>> / From<SeqArray<Dna, N, W>> for Seq<Iupac> and Seq<text::Dna>
        macro_rules! conv {
            ($(($n:literal, $w:literal)),*) => {
                match cs.len() {
                    $( $n => {
                        let mk = || SeqArray::<Dna, $n, $w> { _p: PhantomData, ba: bitvec::array::BitArray::new(arr_words::<$w>(cs, 2)) };
                        let a = mk();
                        let i1: Seq<Iupac> = Seq::from(&a);
                        let i2: Seq<Iupac> = Seq::from(mk());
                        assert!(crate::vc::same_codes(&i1, &i2), "SeqArray -> Seq<Iupac>: borrowed and owned differ");
                        let t1: Seq<text::Dna> = Seq::from(&a);
                        let t2: Seq<text::Dna> = Seq::from(mk());
                        assert!(crate::vc::same_codes(&t1, &t2), "SeqArray -> Seq<text::Dna>: borrowed and owned differ");
                        (lencodes::<Iupac>(&i1), lencodes::<text::Dna>(&t1))
                    } )*
                    _ => unreachable!(),
                }
            };
        }
        let (i, tx) = conv!((1, 1), (2, 1), (3, 1), (4, 1), (5, 1), (8, 1), (16, 1), (31, 1), (32, 1), (33, 2), (40, 2), (64, 2), (65, 3));
        o.push("777".into());
        o.extend(i);
        o.push("777".into());
        o.extend(tx);
        Some(o)
    }
    fn kdispatch(st: &mut St<Self>, k: usize, w: u8, name: &str, t: &mut Toks) {
        kd_arms!(st, k, w, name, t, true, true ;
            us: [1,2,3,4,5,6,7,8,9,10,11,12,13,14,15,16,17,18,19,20,21,22,23,24,25,26,27,28,29,30,31,32] ;
            u64: [1,2,3,8,16,31,32] ; u128: [1,2,3,31,32,33,40,63,64])
    }
    fn xlate(m: usize, s: &SeqSlice<Self>) -> Option<Vec<String>> {
        // translation pipelines as users write them: plain map, reading frames through
        // skip/step_by, and the k-th window through nth - all must give the triplet's amino acid
        let tr = |c: &SeqSlice<Self>| STANDARD.to_amino(c).to_bits();
        Some(match m {
            0 | 1 => {
                let plain: Vec<u8> = if m == 0 {
                    s.windows(3).map(tr).collect()
                } else {
                    s.chunks(3).map(tr).collect()
                };
                // reading frames: skip/step_by/nth applied to the window iterator itself
                let wins: Vec<&SeqSlice<Self>> = if m == 0 { s.windows(3).collect() } else { s.chunks(3).collect() };
                let mut bad = if m == 0 {
                    iter_protocol(|| s.windows(3), &wins)
                } else {
                    iter_protocol(|| s.chunks(3), &wins)
                };
                for f in 0..3usize {
                    let got: Vec<u8> = if m == 0 {
                        s.windows(3).skip(f).step_by(3).map(tr).collect()
                    } else {
                        s.chunks(3).skip(f).step_by(3).map(tr).collect()
                    };
                    let want: Vec<u8> = plain.iter().copied().skip(f).step_by(3).collect();
                    if got != want {
                        bad = 7;
                    }
                }
                if bad != 0 {
                    return Some(vec!["4294967293".to_string(), bad.to_string()]);
                }
                plain.iter().map(|a| a.to_string()).collect()
            }
            _ => vec![tr(s).to_string()],
        })
    }
    fn conv(s: &SeqSlice<Self>, t: usize) -> Option<Vec<String>> {
        Some(if t == 0 {
            let c: Seq<Iupac> = s.into();
            let mut v = lencodes::<Iupac>(&c);
            v.extend(c.to_string().bytes().map(|b| b.to_string()));
            v
        } else {
            let c: Seq<text::Dna> = s.into();
            let mut v = lencodes::<text::Dna>(&c);
            v.extend(c.to_string().bytes().map(|b| b.to_string()));
            v
        })
    }
}
impl KD for Iupac {
    fn arr(cs: &[usize], other: &SeqSlice<Self>) -> Option<Vec<String>> {
        use bio_seq::seq::SeqArray;
        let mut o = arr_dispatch!(cs, other, 4, [(1, 1, k), (2, 1, k), (3, 1, k), (4, 1, k), (8, 1, k), (15, 1, k), (16, 1, k), (17, 2, n), (20, 2, n), (32, 2, n), (33, 3, n)])?;
        // SeqArray<Iupac>::contains
        macro_rules! cont {
            ($(($n:literal, $w:literal)),*) => {
                match cs.len() {
                    $( $n => {
                        let a = SeqArray::<Iupac, $n, $w> { _p: PhantomData, ba: bitvec::array::BitArray::new(arr_words::<$w>(cs, 4)) };
                        a.contains(other) as u8
                    } )*
                    _ => 2,
                }
            };
        }
        o.push("777".into());
        o.push(cont!((1, 1), (2, 1), (3, 1), (4, 1), (8, 1), (15, 1), (16, 1), (17, 2), (20, 2), (32, 2), (33, 3)).to_string());
        Some(o)
    }
    fn kdispatch(st: &mut St<Self>, k: usize, w: u8, name: &str, t: &mut Toks) {
        kd_arms!(st, k, w, name, t, false, false ;
            us: [1,2,3,4,5,6,7,8,9,10,11,12,13,14,15,16] ;
            u64: [1,2,3,15,16] ; u128: [1,2,3,16,17,31,32])
    }
    fn xlatei(s: &SeqSlice<Self>) -> Option<String> {
        Some(match STANDARD.try_to_amino(s) {
            Ok(a) => format!("0 {}", a.to_bits()),
            Err(TranslationError::AmbiguousTranslation(_)) => "1".to_string(),
            Err(TranslationError::InvalidCodon(_)) => "2".to_string(),
            Err(_) => "3".to_string(),
        })
    }
    fn xcodon(a: usize) -> Option<String> {
        let am = Amino::try_from_bits(a as u8).expect("amino code");
        Some(match STANDARD.try_to_codon(am) {
            Ok(c) => {
                let mut v = vec!["0".to_string()];
                v.extend(c.iter().map(|x| x.to_bits().to_string()));
                v.join(" ")
            }
            Err(TranslationError::AmbiguousCodon(_)) => "1".to_string(),
            Err(TranslationError::InvalidAmino(_)) => "3".to_string(),
            Err(_) => "4".to_string(),
        })
    }
    fn contains(m: usize, regs: &[Seq<Self>], a: &Sd, b: &Sd) -> Option<bool> {
        let sb = slice_of(regs, b);
        Some(match m {
            0 => slice_of(regs, a).contains(sb),
            1 => regs[a.reg].contains(sb),
            _ => panic!("contains mode"),
        })
    }
}
impl KD for Amino {
    fn kdispatch(st: &mut St<Self>, k: usize, w: u8, name: &str, t: &mut Toks) {
        kd_arms!(st, k, w, name, t, false, false ;
            us: [1,2,3,4,5,6,7,8,9,10] ;
            u64: [1,2,3,9,10] ; u128: [1,2,3,10,11,20,21])
    }
}
impl KD for text::Dna {
    fn kdispatch(st: &mut St<Self>, k: usize, w: u8, name: &str, t: &mut Toks) {
        kd_arms!(st, k, w, name, t, false, true ;
            us: [1,2,3,4,5,6,7,8] ;
            u64: [1,2,7,8] ; u128: [1,2,8,9,15,16])
    }
}
impl KD for masked::Dna {
    fn kdispatch(st: &mut St<Self>, k: usize, w: u8, name: &str, t: &mut Toks) {
        kd_arms!(st, k, w, name, t, false, true ;
            us: [1,2,3,4,5,6,7,8,9,10,11,12,13,14,15,16] ;
            u64: [1,2,15,16] ; u128: [1,2,16,17,31,32])
    }
}
impl KD for masked::Iupac {
    fn kdispatch(st: &mut St<Self>, k: usize, w: u8, name: &str, t: &mut Toks) {
        kd_arms!(st, k, w, name, t, false, true ;
            us: [1,2,3,4,5,6,7,8,9,10,11,12] ;
            u64: [1,2,11,12] ; u128: [1,2,12,13,24,25])
    }
}
impl KD for degenerate::Dna {
    fn kdispatch(st: &mut St<Self>, k: usize, w: u8, name: &str, t: &mut Toks) {
        kd_arms!(st, k, w, name, t, false, true ;
            us: [1,2,3,7,8,9,31,32,33,63,64] ;
            u64: [1,2,63,64] ; u128: [1,2,64,65,127,128])
    }
}

/// The items an iterator yields through `next()` must also be what the rest of the Iterator
/// protocol reports: nth, skip, step_by, count, last, size_hint (an override of any of them that
/// disagrees breaks "the iterator enumerates exactly these items").  Returns 0 if consistent,
/// otherwise a code naming the first inconsistent method.
fn iter_protocol<T: PartialEq, I: Iterator<Item = T>>(mk: impl Fn() -> I, items: &[T]) -> usize {
    let n = items.len();
    if mk().count() != n {
        return 1;
    }
    if mk().last().as_ref() != items.last() {
        return 2;
    }
    let (lo, hi) = mk().size_hint();
    if lo > n || hi.map_or(false, |h| h < n) {
        return 3;
    }
    for k in [0usize, 1, 2, 3, n / 2, n.saturating_sub(1), n, n + 1] {
        if mk().nth(k).as_ref() != items.get(k) {
            return 4;
        }
    }
    // nth twice in a row (state after a jump)
    let mut it = mk();
    let a = it.nth(1);
    let b = it.nth(1);
    if a.as_ref() != items.get(1) || b.as_ref() != items.get(3) {
        return 5;
    }
    // partially consumed with next(), then drained by the fold-based consumers
    for k in [1usize, 2, 3, n / 2] {
        if k > n {
            continue;
        }
        let mut it = mk();
        for _ in 0..k {
            it.next();
        }
        let mut rest: Vec<T> = Vec::new();
        it.for_each(|x| rest.push(x));
        if rest.len() != n - k || rest.iter().zip(items[k..].iter()).any(|(a, b)| a != b) {
            return 8;
        }
        let mut it = mk();
        for _ in 0..k {
            it.next();
        }
        if it.count() != n - k {
            return 9;
        }
        let mut it = mk();
        for _ in 0..k {
            it.next();
        }
        let l = it.last();
        if k < n && l.as_ref() != items.last() {
            return 10;
        }
    }
    {
        let folded: Vec<T> = mk().fold(Vec::new(), |mut v, x| {
            v.push(x);
            v
        });
        if folded.len() != n || folded.iter().zip(items.iter()).any(|(a, b)| a != b) {
            return 11;
        }
    }
    // provided methods a specialised override could get wrong
    {
        let mut seen = 0usize;
        let r: Result<(), ()> = mk().try_for_each(|_| {
            seen += 1;
            Ok(())
        });
        if r.is_err() || seen != n {
            return 12;
        }
        for k in [0usize, 1, n / 2, n.saturating_sub(1)] {
            if k >= n {
                continue;
            }
            // find / position / any by index (items may repeat, so search by position)
            let mut i = 0usize;
            let f = mk().find(|_| {
                i += 1;
                i == k + 1
            });
            if f.as_ref() != items.get(k) {
                return 13;
            }
            let mut j = 0usize;
            let p = mk().position(|_| {
                j += 1;
                j == k + 1
            });
            if p != Some(k) {
                return 14;
            }
        }
        if mk().all(|_| true) != true || mk().any(|_| false) != false {
            return 15;
        }
        let taken: Vec<T> = mk().take(3).collect();
        if taken.len() != n.min(3) || taken.iter().zip(items.iter()).any(|(a, b)| a != b) {
            return 16;
        }
        let en: Vec<(usize, T)> = mk().enumerate().collect();
        if en.len() != n || en.iter().enumerate().any(|(i, (j, x))| i != *j || *x != items[i]) {
            return 17;
        }
        let zipped: Vec<(T, T)> = mk().zip(mk().skip(1)).collect();
        if zipped.len() != n.saturating_sub(1)
            || zipped.iter().enumerate().any(|(i, (a, b))| *a != items[i] || *b != items[i + 1])
        {
            return 18;
        }
    }
    for (sk, st) in [(0usize, 3usize), (1, 3), (2, 3), (1, 2), (n / 2, 1)] {
        let got: Vec<T> = mk().skip(sk).step_by(st).collect();
        let want: Vec<&T> = items.iter().skip(sk).step_by(st).collect();
        if got.len() != want.len() || got.iter().zip(want).any(|(a, b)| a != b) {
            return 6;
        }
    }
    0
}

/// Evaluate an observation through the borrowed slice and, when the descriptor names a whole register,
/// also with the owned `Seq` as the method receiver (inherent methods of `Seq` take precedence over the
/// ones reached through `Deref`); a disagreement is marked so that it cannot equal any model output.
macro_rules! both_views {
    ($st:expr, $sd:expr, |$v:ident| $e:expr) => {{
        let via_slice: String = {
            let $v = slice_of(&$st.regs, &$sd);
            $e
        };
        if $sd.ranges.is_empty() {
            let via_owned: String = {
                let $v = &$st.regs[$sd.reg];
                $e
            };
            if via_owned != via_slice {
                format!("{} 4294967292", via_owned)
            } else {
                via_owned
            }
        } else {
            via_slice
        }
    }};
}

fn arr_words<const W: usize>(cs: &[usize], bits: usize) -> [usize; W] {
    let mut ws = [0usize; W];
    for (i, c) in cs.iter().enumerate() {
        for j in 0..bits {
            let p = i * bits + j;
            ws[p / 64] |= ((c >> j) & 1) << (p % 64);
        }
    }
    ws
}

fn arr_obs<A: VC, const N: usize, const W: usize>(cs: &[usize], other: &SeqSlice<A>, kmer_ok: bool) -> Vec<String>
where
    A: Into<A>,
{
    use bio_seq::seq::SeqArray;
    let mk = || SeqArray::<A, N, W> {
        _p: PhantomData,
        ba: bitvec::array::BitArray::new(arr_words::<W>(cs, A::BITS as usize)),
    };
    let a = mk();
    let sl: &SeqSlice<A> = &a;
    let asr: &SeqSlice<A> = a.as_ref();
    let mut o = lencodes(sl);
    o.push("777".into());
    o.extend(lencodes(asr));
    o.push("777".into());
    let s1: Seq<A> = Seq::from(&a);
    o.extend(lencodes::<A>(&s1));
    o.push("777".into());
    let s2: Seq<A> = Seq::from(mk());
    o.extend(lencodes::<A>(&s2));
    o.push("777".into());
    o.push(((feed(sl) == feed(&s1)) as u8).to_string());
    o.push(((*sl == s1) as u8).to_string());
    o.push(((*sl == *other) as u8).to_string());
    let _ = kmer_ok;
    o
}

fn ordnum(o: core::cmp::Ordering) -> u8 {
    match o {
        core::cmp::Ordering::Less => 0,
        core::cmp::Ordering::Equal => 1,
        core::cmp::Ordering::Greater => 2,
    }
}

fn do_parse<A: VC>(entry: usize, b: Vec<u8>) -> Result<Seq<A>, ParseBioError> {
    let as_str = std::str::from_utf8(&b).ok().map(|s| s.to_string());
    match (entry, as_str) {
        (0, Some(s)) => Seq::<A>::try_from(s.as_str()),
        (1, Some(s)) => Seq::<A>::try_from(s),
        (2, Some(s)) => Seq::<A>::try_from(&s),
        (3, Some(s)) => Seq::<A>::from_str(&s),
        (5, _) => Seq::<A>::try_from(b),
        _ => Seq::<A>::try_from(&b[..]),
    }
}

fn step<A: KD>(st: &mut St<A>, t: &mut Toks)
where
    Seq<A>: serde::Serialize + serde::de::DeserializeOwned,
{
    let name = t.word();
    match name {
        // ---------------- constructors
        "parse" => {
            let e = t.num();
            let b = t.bytes();
            match do_parse::<A>(e, b) {
                Ok(s) => {
                    st.out.push("0".into());
                    st.regs.push(s)
                }
                Err(e) => {
                    st.out.push(parse_err(&e));
                    st.regs.push(Seq::new())
                }
            }
        }
        "trim" => {
            let b = t.bytes();
            match Seq::<A>::trim_u8(&b) {
                Ok(s) => {
                    st.out.push("0".into());
                    st.regs.push(s)
                }
                Err(e) => {
                    st.out.push(parse_err(&e));
                    st.regs.push(Seq::new())
                }
            }
        }
        "collect" => {
            let m = t.num();
            let cs: Vec<A> = t.list().into_iter().map(sym::<A>).collect();
            let s: Seq<A> = match m {
                0 => cs.iter().copied().collect(),
                1 => Seq::from(&cs),
                2 => {
                    let mut s = Seq::new();
                    s.extend(cs.iter().copied());
                    s
                }
                3 => {
                    let mut s = Seq::with_capacity(cs.len());
                    for c in &cs {
                        s.push(*c)
                    }
                    s
                }
                _ => {
                    let mut s = Seq::default();
                    Extend::extend(&mut s, cs.iter().copied());
                    s
                }
            };
            st.regs.push(s);
        }
        "clone" => {
            let r = t.num();
            let c = st.regs[r].clone();
            let d = <Seq<A> as Clone>::clone(&st.regs[r]);
            assert!(crate::vc::same_codes(&c, &d), "clone: method call and trait call differ");
            st.regs.push(c);
        }
        "toowned" => {
            let sd = t.sd();
            let c = slice_of(&st.regs, &sd).to_owned();
            if sd.ranges.is_empty() {
                let d: Seq<A> = st.regs[sd.reg].to_owned();
                assert!(lencodes::<A>(&d) == lencodes::<A>(&c), "to_owned of Seq and of its slice differ");
            }
            st.regs.push(c);
        }
        "fromslice" => {
            let sd = t.sd();
            let c: Seq<A> = Seq::from(slice_of(&st.regs, &sd));
            st.regs.push(c);
        }
        "torev" => {
            let sd = t.sd();
            let c = if sd.ranges.is_empty() {
                st.regs[sd.reg].to_rev()
            } else {
                slice_of(&st.regs, &sd).to_rev()
            };
            st.regs.push(c);
        }
        "tocomp" => {
            let sd = t.sd();
            let c = if sd.ranges.is_empty() {
                A::seq_to_comp(&st.regs[sd.reg])
            } else {
                A::slice_to_comp(slice_of(&st.regs, &sd))
            };
            st.regs.push(c.expect("codec without complement"));
        }
        "torevcomp" => {
            let sd = t.sd();
            let c = if sd.ranges.is_empty() {
                A::seq_to_revcomp(&st.regs[sd.reg])
            } else {
                A::slice_to_revcomp(slice_of(&st.regs, &sd))
            };
            st.regs.push(c.expect("codec without complement"));
        }
        "tomask" => {
            let r = t.num();
            let c = A::seq_to_mask(&st.regs[r]).expect("codec without mask");
            st.regs.push(c);
        }
        "tounmask" => {
            let r = t.num();
            let c = A::seq_to_unmask(&st.regs[r]).expect("codec without mask");
            st.regs.push(c);
        }
        "and" => {
            let a = t.sd();
            let b = t.sd();
            let c = slice_of(&st.regs, &a) & slice_of(&st.regs, &b);
            st.regs.push(c);
        }
        "or" => {
            let a = t.sd();
            let b = t.sd();
            let c = slice_of(&st.regs, &a) | slice_of(&st.regs, &b);
            st.regs.push(c);
        }
        "bitand" => {
            let a = t.num();
            let b = t.num();
            let c = st.regs[a].clone().bit_and(st.regs[b].clone());
            st.regs.push(c);
        }
        "bitor" => {
            let a = t.num();
            let b = t.num();
            let c = st.regs[a].clone().bit_or(st.regs[b].clone());
            st.regs.push(c);
        }
        "fromraw" => {
            let n = t.num();
            let k = t.num();
            let ws: Vec<usize> = (0..k).map(|_| t.u64() as usize).collect();
            match Seq::<A>::from_raw(n, &ws) {
                Some(s) => {
                    st.out.push("1".into());
                    st.regs.push(s)
                }
                None => {
                    st.out.push("0".into());
                    st.regs.push(Seq::new())
                }
            }
        }
        "serde" => {
            let f = t.num();
            let r = t.num();
            let back: Option<Seq<A>> = if f == 0 {
                bincode::serialize(&st.regs[r])
                    .ok()
                    .and_then(|b| bincode::deserialize(&b).ok())
            } else {
                serde_json::to_string(&st.regs[r])
                    .ok()
                    .and_then(|b| serde_json::from_str(&b).ok())
            };
            match back {
                Some(s) => {
                    st.out.push("0".into());
                    st.regs.push(s)
                }
                None => {
                    st.out.push("1".into());
                    st.regs.push(Seq::new())
                }
            }
        }
        // ---------------- mutators
        "push" => {
            let r = t.num();
            let c = t.num();
            st.regs[r].push(sym::<A>(c));
        }
        "extend" => {
            let r = t.num();
            let cs: Vec<A> = t.list().into_iter().map(sym::<A>).collect();
            // the Extend trait (what generic code and adaptors such as unzip use) and the inherent method
            let mut u = st.regs[r].clone();
            <Seq<A> as Extend<A>>::extend(&mut u, cs.iter().copied());
            st.regs[r].extend(cs);
            assert!(crate::vc::same_codes(&u, &st.regs[r]), "Extend::extend and Seq::extend differ");
        }
        "append" | "prepend" | "insert" => {
            let r = t.num();
            let i = if name == "insert" { t.num() } else { 0 };
            let sd = t.sd();
            let mut target = std::mem::take(&mut st.regs[r]);
            let backup;
            let arg: &SeqSlice<A> = if sd.reg == r {
                backup = target.clone();
                let mut s: &SeqSlice<A> = &backup;
                for rg in &sd.ranges {
                    s = apply_range(s, rg);
                }
                s
            } else {
                slice_of(&st.regs, &sd)
            };
            match name {
                "append" => target.append(arg),
                "prepend" => target.prepend(arg),
                _ => target.insert(i, arg),
            }
            st.regs[r] = target;
        }
        "remove" => {
            let r = t.num();
            let form = t.num();
            let a = t.num();
            let b = t.num();
            let s = &mut st.regs[r];
            match form {
                0 => s.remove(a..b),
                1 => s.remove(a..=b),
                2 => s.remove(..b),
                3 => s.remove(..=b),
                4 => s.remove(a..),
                5 => s.remove(..),
                _ => s.remove((core::ops::Bound::Excluded(a), core::ops::Bound::Included(b))),
            }
        }
        "truncate" => {
            let r = t.num();
            let n = t.num();
            st.regs[r].truncate(n);
        }
        "clear" => {
            let r = t.num();
            st.regs[r].clear();
        }
        "rev" => {
            let r = t.num();
            let mut u = st.regs[r].clone();
            <Seq<A> as ReverseMut>::rev(&mut u);
            st.regs[r].rev();
            assert!(crate::vc::same_codes(&u, &st.regs[r]), "Seq::rev: method call and trait call differ");
        }
        "comp" => {
            let r = t.num();
            assert!(A::seq_comp(&mut st.regs[r]));
        }
        "revcomp" => {
            let r = t.num();
            assert!(A::seq_revcomp(&mut st.regs[r]));
        }
        "mask" => {
            let r = t.num();
            assert!(A::seq_mask(&mut st.regs[r]));
        }
        "unmask" => {
            let r = t.num();
            assert!(A::seq_unmask(&mut st.regs[r]));
        }
        // ---------------- observers
        "len" => {
            let sd = t.sd();
            let o = both_views!(st, sd, |s| format!("{} {}", s.len(), s.is_empty() as u8));
            st.out.push(o);
        }
        "display" => {
            let sd = t.sd();
            let s = slice_of(&st.regs, &sd);
            let d1 = s.to_string();
            let d2 = String::from(s);
            let d3 = if sd.ranges.is_empty() {
                let r = &st.regs[sd.reg];
                let a = format!("{}", r);
                let b = String::from(r);
                let c = String::from(r.clone());
                assert!(a == b && b == c, "display forms of Seq disagree");
                a
            } else {
                d1.clone()
            };
            assert!(d1 == d2 && d1 == d3, "display forms disagree");
            st.out.push(
                d1.bytes()
                    .map(|b| b.to_string())
                    .collect::<Vec<_>>()
                    .join(" "),
            );
        }
        "codes" => {
            let sd = t.sd();
            let sl = slice_of(&st.regs, &sd);
            let v = lencodes(sl);
            let items: Vec<A> = sl.iter().collect();
            let bad = iter_protocol(|| sl.iter(), &items);
            if bad != 0 {
                st.out.push(format!("4294967293 {bad}"));
                return;
            }
            if sd.ranges.is_empty() {
                let w: Vec<String> = (&st.regs[sd.reg]).into_iter().map(|x| x.to_bits().to_string()).collect();
                assert!(w[..] == v[1..], "IntoIterator for &Seq disagrees with SeqSlice::iter");
            }
            let o = both_views!(st, sd, |s| {
                let mut o = vec![s.len().to_string()];
                o.extend(s.iter().map(|x| x.to_bits().to_string()));
                o.join(" ")
            });
            assert!(o.ends_with("4294967292") || o == v.join(" "), "iter() disagrees with itself");
            st.out.push(o);
        }
        "reviter" => {
            let sd = t.sd();
            let s = slice_of(&st.regs, &sd);
            let items: Vec<A> = s.rev_iter().collect();
            let bad = iter_protocol(|| s.rev_iter(), &items);
            if bad != 0 {
                st.out.push(format!("4294967293 {bad}"));
                return;
            }
            let o = both_views!(st, sd, |s| s
                .rev_iter()
                .map(|x| x.to_bits().to_string())
                .collect::<Vec<_>>()
                .join(" "));
            st.out.push(o);
        }
        "nth" => {
            let sd = t.sd();
            let i = t.num();
            let o = both_views!(st, sd, |s| s.nth(i).to_bits().to_string());
            st.out.push(o);
        }
        "get" => {
            let sd = t.sd();
            let i = t.num();
            let o = both_views!(st, sd, |s| match s.get(i) {
                Some(x) => format!("1 {}", x.to_bits()),
                None => "0".to_string(),
            });
            st.out.push(o);
        }
        "windows" | "chunks" => {
            let sd = t.sd();
            let w = t.num();
            assert!(w > 0, "width 0 never terminates for chunks");
            let s = slice_of(&st.regs, &sd);
            let items: Vec<&SeqSlice<A>> = if name == "windows" {
                s.windows(w).collect()
            } else {
                s.chunks(w).collect()
            };
            let bad = if name == "windows" {
                iter_protocol(|| s.windows(w), &items)
            } else {
                iter_protocol(|| s.chunks(w), &items)
            };
            if bad != 0 {
                st.out.push(format!("4294967293 {bad}"));
                return;
            }
            let mut o = vec![items.len().to_string()];
            for it in items {
                o.extend(lencodes(it));
            }
            let direct = both_views!(st, sd, |s| {
                let its: Vec<&SeqSlice<A>> = if name == "windows" { s.windows(w).collect() } else { s.chunks(w).collect() };
                let mut o = vec![its.len().to_string()];
                for it in its {
                    o.extend(lencodes(it));
                }
                o.join(" ")
            });
            assert!(direct.ends_with("4294967292") || direct == o.join(" "), "windows/chunks disagree with themselves");
            st.out.push(direct);
        }
        "winvec" => {
            // FromIterator<&SeqSlice> for Vec<Seq>
            let sd = t.sd();
            let w = t.num();
            assert!(w > 0);
            let s = slice_of(&st.regs, &sd);
            let items: Vec<Seq<A>> = s.windows(w).collect();
            let mut o = vec![items.len().to_string()];
            for it in &items {
                o.extend(lencodes(it));
            }
            st.out.push(o.join(" "));
        }
        "chain" => {
            let a = t.sd();
            let b = t.sd();
            let v: Vec<String> = slice_of(&st.regs, &a)
                .chain(slice_of(&st.regs, &b))
                .map(|x| x.to_bits().to_string())
                .collect();
            {
                let (sa, sb) = (slice_of(&st.regs, &a), slice_of(&st.regs, &b));
                let items: Vec<A> = sa.chain(sb).collect();
                let bad = iter_protocol(|| sa.chain(sb), &items);
                if bad != 0 {
                    st.out.push(format!("4294967293 {bad}"));
                    return;
                }
            }
            if a.ranges.is_empty() && b.ranges.is_empty() {
                let w: Vec<String> = st.regs[a.reg]
                    .chain(&st.regs[b.reg])
                    .map(|x| x.to_bits().to_string())
                    .collect();
                assert!(v == w, "chain on owned sequences differs from chain on their slices");
            }
            st.out.push(v.join(" "));
        }
        "eq" => {
            let m = t.num();
            let a = t.sd();
            let b = t.sd();
            let sa = slice_of(&st.regs, &a);
            let sb = slice_of(&st.regs, &b);
            let ra = &st.regs[a.reg];
            let rb = &st.regs[b.reg];
            let r = match m {
                0 => *sa == *sb,
                1 => sa == *sb,
                2 => *ra == *rb,
                3 => *ra == *sb,
                4 => *ra == sb,
                5 => *sa == *rb,
                6 => sa == *rb,
                7 => ra == *rb,
                8 => *ra == rb,
                9 => !(*sa != *sb),
                _ => panic!("eq mode"),
            };
            st.out.push((r as u8).to_string());
        }
        "eqstr" => {
            let a = t.sd();
            let b = t.bytes();
            let s = String::from_utf8(b).expect("utf8");
            st.out
                .push(((*slice_of(&st.regs, &a) == s.as_str()) as u8).to_string());
        }
        "cmp" => {
            let a = t.num();
            let b = t.num();
            let (c, pc) = A::seq_cmp(&st.regs[a], &st.regs[b]).expect("cmp: codecs that are Ord only");
            assert!(pc == Some(c));
            st.out.push(ordnum(c).to_string());
        }
        "tousize" => {
            let sd = t.sd();
            match usize::try_from(slice_of(&st.regs, &sd)) {
                Ok(v) => st.out.push(format!("0 {v}")),
                Err(e) => st.out.push(parse_err(&e)),
            }
        }
        "tou8" => {
            let sd = t.sd();
            let v: u8 = slice_of(&st.regs, &sd).into();
            st.out.push(v.to_string());
        }
        "intousize" => {
            let r = t.num();
            let v: usize = st.regs[r].clone().into();
            st.out.push(v.to_string());
        }
        "intoraw" => {
            // the live region of the exported word image, read from bit 0 of word 0
            let r = t.num();
            let s = &st.regs[r];
            let n = s.len();
            let bits = A::BITS as usize;
            let ws: Vec<usize> = s.into_raw().to_vec();
            if ws.len() * 64 < n * bits {
                st.out.push("S".into());
            } else {
                let mut o = vec![n.to_string()];
                for i in 0..n {
                    let mut v = 0usize;
                    for j in 0..bits {
                        let p = i * bits + j;
                        v |= ((ws[p / 64] >> (p % 64)) & 1) << j;
                    }
                    o.push(v.to_string());
                }
                st.out.push(o.join(" "));
            }
        }
        "hasheq" => {
            let a = t.sd();
            let b = t.sd();
            let fa = if a.ranges.is_empty() {
                feed(&st.regs[a.reg])
            } else {
                feed(slice_of(&st.regs, &a))
            };
            let fb = if b.ranges.is_empty() {
                feed(&st.regs[b.reg])
            } else {
                feed(slice_of(&st.regs, &b))
            };
            st.out.push(((fa == fb) as u8).to_string());
        }
        "mapget" => {
            let r = t.num();
            let sd = t.sd();
            let mut m: HashMap<Seq<A>, usize> = HashMap::new();
            m.insert(st.regs[r].clone(), 7);
            let q = slice_of(&st.regs, &sd);
            // a map keyed by references to owned sequences (Borrow<SeqSlice> for &Seq)
            let mut m2: HashMap<&Seq<A>, usize> = HashMap::new();
            m2.insert(&st.regs[r], 7);
            assert!(m2.get(q).is_some() == m.get(q).is_some(), "HashMap<&Seq,_> and HashMap<Seq,_> lookups differ");
            st.out.push((m.get(q).is_some() as u8).to_string());
        }
        "contains" => {
            let m = t.num();
            let a = t.sd();
            let b = t.sd();
            let r = A::contains(m, &st.regs, &a, &b).expect("contains: IUPAC only");
            st.out.push((r as u8).to_string());
        }
        "conv" => {
            let ty = t.num();
            let sd = t.sd();
            let v = A::conv(slice_of(&st.regs, &sd), ty).expect("conv: DNA only");
            st.out.push(v.join(" "));
        }
        "all" => {
            let mut o = vec![st.regs.len().to_string()];
            for r in &st.regs {
                o.extend(lencodes::<A>(r));
            }
            st.out.push(o.join(" "));
        }
        "frombv" => {
            // an owned sequence whose bit vector has a non-zero head offset (Seq::from(BitVec))
            let h = t.num();
            let cs = t.list();
            let bits = A::BITS as usize;
            let mut full: bitvec::vec::BitVec<usize, bitvec::order::Lsb0> = bitvec::vec::BitVec::new();
            for _ in 0..h {
                full.push(true);
            }
            for c in &cs {
                for j in 0..bits {
                    full.push((c >> j) & 1 == 1);
                }
            }
            let bv = full[h..].to_bitvec();
            let via_slice: Seq<A> = Seq::from(&full[h..]);
            let via_vec: Seq<A> = Seq::from(bv);
            assert!(crate::vc::same_codes(&via_slice, &via_vec), "Seq::from(&BitSlice) and Seq::from(BitVec) differ");
            st.regs.push(via_vec);
        }
        "arr" => {
            let cs = t.list();
            let sd = t.sd();
            let v = A::arr(&cs, slice_of(&st.regs, &sd)).expect("arr: DNA / IUPAC, lengths of the grid");
            st.out.push(v.join(" "));
        }
        "xlate" => {
            let m = t.num();
            let sd = t.sd();
            let v = A::xlate(m, slice_of(&st.regs, &sd)).expect("xlate: DNA only");
            st.out.push(v.join(" "));
        }
        "xlatei" => {
            let sd = t.sd();
            let v = A::xlatei(slice_of(&st.regs, &sd)).expect("xlatei: IUPAC only");
            st.out.push(v);
        }
        "xcodon" => {
            let a = t.num();
            st.out.push(A::xcodon(a).expect("xcodon: IUPAC only"));
        }
        "ctnew" => {
            // flat entries [len c1..clen amino]* ; the table is built 8 times (fresh RandomState each)
            let flat = t.list();
            let mut entries: Vec<(Vec<usize>, usize)> = vec![];
            let mut i = 0;
            while i < flat.len() {
                let n = flat[i];
                let cs = flat[i + 1..i + 1 + n].to_vec();
                let a = flat[i + 1 + n];
                entries.push((cs, a));
                i += n + 2;
            }
            st.ct.clear();
            for _ in 0..8 {
                let mut m: HashMap<Seq<A>, Amino> = HashMap::new();
                for (i, (cs, a)) in entries.iter().enumerate() {
                    let syms: Vec<A> = cs.iter().map(|&c| sym::<A>(c)).collect();
                    // keys "however they were produced": collected, copied out of an offset window of a
                    // longer sequence, or a longer sequence truncated (dead bits behind the key)
                    let k: Seq<A> = match i % 3 {
                        0 => syms.iter().copied().collect(),
                        1 => {
                            let mut big: Seq<A> = Seq::new();
                            let junk = syms.last().copied().or_else(|| A::items().last());
                            for _ in 0..3 {
                                if let Some(j) = junk {
                                    big.push(j);
                                }
                            }
                            let off = big.len();
                            big.extend(syms.iter().copied());
                            for _ in 0..5 {
                                if let Some(j) = junk {
                                    big.push(j);
                                }
                            }
                            big[off..off + syms.len()].to_owned()
                        }
                        _ => {
                            let mut big: Seq<A> = syms.iter().copied().collect();
                            for _ in 0..4 {
                                if let Some(j) = A::items().last() {
                                    big.push(j);
                                }
                            }
                            big.truncate(syms.len());
                            big
                        }
                    };
                    m.insert(k, Amino::try_from_bits(*a as u8).expect("amino code"));
                }
                st.ct.push(CodonTable::from_map(m));
            }
        }
        "ctq" => {
            let sd = t.sd();
            let q = slice_of(&st.regs, &sd);
            let rs: Vec<String> = st
                .ct
                .iter()
                .map(|tb| match tb.try_to_amino(q) {
                    Ok(a) => format!("0 {}", a.to_bits()),
                    Err(TranslationError::InvalidCodon(_)) => "2".to_string(),
                    Err(_) => "5".to_string(),
                })
                .collect();
            if rs.iter().all(|r| *r == rs[0]) {
                st.out.push(rs[0].clone());
            } else {
                st.out.push(format!("99 {}", rs.join(" 98 ")));
            }
        }
        "ctr" => {
            let a = t.num();
            let am = Amino::try_from_bits(a as u8).expect("amino code");
            let rs: Vec<String> = st
                .ct
                .iter()
                .map(|tb| match tb.try_to_codon(am) {
                    Ok(c) => {
                        let mut v = vec!["0".to_string()];
                        v.extend(lencodes::<A>(&c));
                        v.join(" ")
                    }
                    Err(TranslationError::AmbiguousCodon(_)) => "1".to_string(),
                    Err(TranslationError::InvalidAmino(_)) => "3".to_string(),
                    Err(_) => "5".to_string(),
                })
                .collect();
            if rs.iter().all(|r| *r == rs[0]) {
                st.out.push(rs[0].clone());
            } else {
                st.out.push(format!("99 {}", rs.join(" 98 ")));
            }
        }
        // ---------------- k-mers
        n if n.starts_with('k') => {
            // ops that (re)define the current k-mer carry K and W; the others use the current ones
            let (k, w) = match n {
                "kfrom" | "kunsafe" | "kstr" | "kint" | "kfromseq" | "kmers" | "kmin" => {
                    let k = t.num();
                    let w = t.num() as u8;
                    (k, w)
                }
                _ => (st.kk, st.kw),
            };
            A::kdispatch(st, k, w, n, t);
        }
        other => panic!("unknown op {other}"),
    }
}

fn run_script<A: KD>(line: &str) -> String
where
    Seq<A>: serde::Serialize + serde::de::DeserializeOwned,
{
    let mut st: St<A> = St {
        regs: vec![],
        kk: 1,
        kw: 0,
        kv: 0,
        ct: vec![],
        out: vec![],
    };
    for op in line.split(';') {
        let op = op.trim();
        if op.is_empty() {
            continue;
        }
        let mut t = Toks::new(op);
        let r = guard(|| step(&mut st, &mut t));
        if r.is_none() {
            st.out.push("P".into());
            break;
        }
    }
    st.out
        .iter()
        .map(|o| format!("o {o}"))
        .collect::<Vec<_>>()
        .join(" | ")
}

fn run_all<A: KD>(path: &str)
where
    Seq<A>: serde::Serialize + serde::de::DeserializeOwned,
{
    use std::io::Write;
    let text = std::fs::read_to_string(path).expect("script file");
    let stdout = std::io::stdout();
    let mut w = stdout.lock();
    for line in text.lines() {
        let o = run_script::<A>(line);
        // one line per script, flushed: if the implementation crashes the process (undefined
        // behaviour), the driver knows exactly which script did it
        writeln!(w, "{o}").unwrap();
        w.flush().unwrap();
    }
}

pub fn run_file(codec: &str, path: &str) {
    crate::for_codec!(codec, run_all, path)
}
