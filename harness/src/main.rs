// Harness for the Rocq/Coq verification of bio-seq: dumps the finite tables of the compiled
// code (translator (a)) and interprets "sequence VM" scripts against the real API (correspondence).
#![allow(clippy::all)]
#![allow(dead_code)]
mod tables;
mod vc;
mod vm;

#[cfg(feature = "derive-internals")]
#[allow(dead_code, unused_imports)]
#[path = "/repo/bio-seq-derive/src/codec.rs"]
mod derive_codec;
#[cfg(feature = "derive-internals")]
#[allow(dead_code, unused_imports)]
#[path = "/repo/bio-seq-derive/src/seqarray.rs"]
mod derive_seqarray;

fn main() {
    // panics are values for the harness; keep stderr quiet (HARNESS_PANIC_MSG=1 prints them, used when a
    // replay is written so that the report says whether the library or a harness assertion panicked)
    if std::env::var_os("HARNESS_PANIC_MSG").is_none() {
        std::panic::set_hook(Box::new(|_| {}));
    }
    let args: Vec<String> = std::env::args().collect();
    match args.get(1).map(|s| s.as_str()) {
        Some("tables") => tables::dump(),
        Some("vm") => vm::run_file(&args[2], &args[3]),
        _ => {
            eprintln!("usage: harness tables | vm <codec> <scriptfile>");
            std::process::exit(2);
        }
    }
}
