// Per-codec capabilities: Rust has no specialisation, so the optional traits
// (ComplementMut / MaskableMut) are reached through this trait, implemented by macro.
use bio_seq::codec::{degenerate, masked, text};
use bio_seq::prelude::*;
use std::panic::{catch_unwind, AssertUnwindSafe};

pub trait VC: Codec + 'static + std::panic::RefUnwindSafe + std::panic::UnwindSafe {
    const NAME: &'static str;
    const HAS_COMP: bool;
    const HAS_MASK: bool;
    fn sym_comp(self) -> Option<Self> {
        None
    }
    fn sym_mask(self) -> Option<Self> {
        None
    }
    fn sym_unmask(self) -> Option<Self> {
        None
    }
    // in-place on owned
    fn seq_comp(_s: &mut Seq<Self>) -> bool {
        false
    }
    fn seq_revcomp(_s: &mut Seq<Self>) -> bool {
        false
    }
    fn seq_mask(_s: &mut Seq<Self>) -> bool {
        false
    }
    fn seq_unmask(_s: &mut Seq<Self>) -> bool {
        false
    }
    // copying forms
    fn slice_to_comp(_s: &SeqSlice<Self>) -> Option<Seq<Self>> {
        None
    }
    fn slice_to_revcomp(_s: &SeqSlice<Self>) -> Option<Seq<Self>> {
        None
    }
    fn seq_to_comp(_s: &Seq<Self>) -> Option<Seq<Self>> {
        None
    }
    fn seq_to_revcomp(_s: &Seq<Self>) -> Option<Seq<Self>> {
        None
    }
    fn seq_to_mask(_s: &Seq<Self>) -> Option<Seq<Self>> {
        None
    }
    fn seq_to_unmask(_s: &Seq<Self>) -> Option<Seq<Self>> {
        None
    }
}

macro_rules! comp_impl {
    () => {
        fn sym_comp(self) -> Option<Self> {
            let mut x = self;
            x.comp();
            Some(x)
        }
        fn seq_comp(s: &mut Seq<Self>) -> bool {
            s.comp();
            true
        }
        fn seq_revcomp(s: &mut Seq<Self>) -> bool {
            s.revcomp();
            true
        }
        fn slice_to_comp(s: &SeqSlice<Self>) -> Option<Seq<Self>> {
            Some(s.to_comp())
        }
        fn slice_to_revcomp(s: &SeqSlice<Self>) -> Option<Seq<Self>> {
            Some(s.to_revcomp())
        }
        fn seq_to_comp(s: &Seq<Self>) -> Option<Seq<Self>> {
            Some(s.to_comp())
        }
        fn seq_to_revcomp(s: &Seq<Self>) -> Option<Seq<Self>> {
            Some(s.to_revcomp())
        }
    };
}

macro_rules! mask_impl {
    () => {
        fn sym_mask(self) -> Option<Self> {
            let mut x = self;
            x.mask();
            Some(x)
        }
        fn sym_unmask(self) -> Option<Self> {
            let mut x = self;
            x.unmask();
            Some(x)
        }
        fn seq_mask(s: &mut Seq<Self>) -> bool {
            s.mask();
            true
        }
        fn seq_unmask(s: &mut Seq<Self>) -> bool {
            s.unmask();
            true
        }
        fn seq_to_mask(s: &Seq<Self>) -> Option<Seq<Self>> {
            Some(s.to_mask())
        }
        fn seq_to_unmask(s: &Seq<Self>) -> Option<Seq<Self>> {
            Some(s.to_unmask())
        }
    };
}

impl VC for Dna {
    const NAME: &'static str = "dna";
    const HAS_COMP: bool = true;
    const HAS_MASK: bool = false;
    comp_impl!();
}
impl VC for Iupac {
    const NAME: &'static str = "iupac";
    const HAS_COMP: bool = true;
    const HAS_MASK: bool = false;
    comp_impl!();
}
impl VC for Amino {
    const NAME: &'static str = "amino";
    const HAS_COMP: bool = false;
    const HAS_MASK: bool = false;
}
impl VC for text::Dna {
    const NAME: &'static str = "text";
    const HAS_COMP: bool = false;
    const HAS_MASK: bool = false;
}
impl VC for masked::Dna {
    const NAME: &'static str = "mdna";
    const HAS_COMP: bool = true;
    const HAS_MASK: bool = true;
    comp_impl!();
    mask_impl!();
}
impl VC for masked::Iupac {
    const NAME: &'static str = "miupac";
    const HAS_COMP: bool = true;
    const HAS_MASK: bool = true;
    comp_impl!();
    mask_impl!();
}
impl VC for degenerate::Dna {
    const NAME: &'static str = "degen";
    const HAS_COMP: bool = true;
    const HAS_MASK: bool = false;
    comp_impl!();
}

/// run a closure, mapping a panic to None
pub fn guard<T>(f: impl FnOnce() -> T) -> Option<T> {
    catch_unwind(AssertUnwindSafe(f)).ok()
}

#[macro_export]
macro_rules! for_codec {
    ($name:expr, $f:ident $(, $arg:expr)*) => {
        match $name {
            "dna" => $f::<bio_seq::prelude::Dna>($($arg),*),
            "iupac" => $f::<bio_seq::prelude::Iupac>($($arg),*),
            "amino" => $f::<bio_seq::prelude::Amino>($($arg),*),
            "text" => $f::<bio_seq::codec::text::Dna>($($arg),*),
            "mdna" => $f::<bio_seq::codec::masked::Dna>($($arg),*),
            "miupac" => $f::<bio_seq::codec::masked::Iupac>($($arg),*),
            "degen" => $f::<bio_seq::codec::degenerate::Dna>($($arg),*),
            other => panic!("unknown codec {other}"),
        }
    };
}
