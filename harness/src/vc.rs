// Per-codec capabilities: Rust has no specialisation, so the optional traits
// (ComplementMut / MaskableMut) are reached through this trait, implemented by macro.
use bio_seq::codec::{degenerate, masked, text};
use bio_seq::prelude::*;
use std::panic::{catch_unwind, AssertUnwindSafe};

pub trait VC: Codec + 'static + std::panic::RefUnwindSafe + std::panic::UnwindSafe {
    const NAME: &'static str;
    const HAS_COMP: bool;
    const HAS_MASK: bool;
    fn sym_comp(self) -> Option<Self> {
        None
    }
    /// the symbol-level `Complement::to_comp` / `Maskable::to_mask`, where the codec has them
    fn sym_to_comp(self) -> Option<Self> {
        None
    }
    fn sym_to_mask(self) -> Option<(Self, Self)> {
        None
    }
    /// `u8::from(symbol)`, where the codec has it
    fn sym_into_u8(self) -> Option<u8> {
        None
    }
    fn sym_mask(self) -> Option<Self> {
        None
    }
    fn sym_unmask(self) -> Option<Self> {
        None
    }
    // in-place on owned
    fn seq_comp(_s: &mut Seq<Self>) -> bool {
        false
    }
    fn seq_revcomp(_s: &mut Seq<Self>) -> bool {
        false
    }
    fn seq_mask(_s: &mut Seq<Self>) -> bool {
        false
    }
    fn seq_unmask(_s: &mut Seq<Self>) -> bool {
        false
    }
    // copying forms
    fn slice_to_comp(_s: &SeqSlice<Self>) -> Option<Seq<Self>> {
        None
    }
    fn slice_to_revcomp(_s: &SeqSlice<Self>) -> Option<Seq<Self>> {
        None
    }
    fn seq_to_comp(_s: &Seq<Self>) -> Option<Seq<Self>> {
        None
    }
    fn seq_to_revcomp(_s: &Seq<Self>) -> Option<Seq<Self>> {
        None
    }
    fn seq_to_mask(_s: &Seq<Self>) -> Option<Seq<Self>> {
        None
    }
    fn seq_to_unmask(_s: &Seq<Self>) -> Option<Seq<Self>> {
        None
    }
}

/// same length and same symbol codes (read through the slice iterator)
pub fn same_codes<A: Codec>(a: &SeqSlice<A>, b: &SeqSlice<A>) -> bool {
    a.len() == b.len() && a.iter().map(|x| x.to_bits()).eq(b.iter().map(|x| x.to_bits()))
}

/// a call through a trait bound only (what generic user code does)
pub fn via_trait_comp<T: ComplementMut>(x: &mut T) {
    x.comp()
}

macro_rules! comp_impl {
    () => {
        fn sym_comp(self) -> Option<Self> {
            let mut x = self;
            x.comp();
            let mut y = self;
            <Self as ComplementMut>::comp(&mut y);
            assert!(x.to_bits() == y.to_bits(), "symbol comp: method call and trait call differ");
            if let Some(z) = self.sym_to_comp() {
                assert!(z.to_bits() == x.to_bits(), "symbol to_comp differs from comp");
            }
            Some(x)
        }
        fn seq_comp(s: &mut Seq<Self>) -> bool {
            let mut t = s.clone();
            <Seq<Self> as ComplementMut>::comp(&mut t);
            let mut u = s.clone();
            via_trait_comp(&mut u);
            s.comp();
            assert!(same_codes(&t, s) && same_codes(&u, s), "Seq::comp: method call and trait call differ");
            true
        }
        fn seq_revcomp(s: &mut Seq<Self>) -> bool {
            let mut t = s.clone();
            <Seq<Self> as ReverseComplementMut>::revcomp(&mut t);
            s.revcomp();
            assert!(same_codes(&t, s), "Seq::revcomp: method call and trait call differ");
            true
        }
        fn slice_to_comp(s: &SeqSlice<Self>) -> Option<Seq<Self>> {
            let a = s.to_comp();
            let b = <SeqSlice<Self> as Complement>::to_comp(s);
            assert!(same_codes(&a, &b), "SeqSlice::to_comp: method call and trait call differ");
            Some(a)
        }
        fn slice_to_revcomp(s: &SeqSlice<Self>) -> Option<Seq<Self>> {
            let a = s.to_revcomp();
            let b = <SeqSlice<Self> as ReverseComplement>::to_revcomp(s);
            assert!(same_codes(&a, &b), "SeqSlice::to_revcomp: method call and trait call differ");
            Some(a)
        }
        fn seq_to_comp(s: &Seq<Self>) -> Option<Seq<Self>> {
            let a = s.to_comp();
            let b = <Seq<Self> as Complement>::to_comp(s);
            assert!(same_codes(&a, &b), "Seq::to_comp: method call and trait call differ");
            Some(a)
        }
        fn seq_to_revcomp(s: &Seq<Self>) -> Option<Seq<Self>> {
            let a = s.to_revcomp();
            let b = <Seq<Self> as ReverseComplement>::to_revcomp(s);
            assert!(same_codes(&a, &b), "Seq::to_revcomp: method call and trait call differ");
            Some(a)
        }
    };
}

macro_rules! mask_impl {
    () => {
        fn sym_mask(self) -> Option<Self> {
            let mut x = self;
            x.mask();
            let mut y = self;
            <Self as MaskableMut>::mask(&mut y);
            assert!(x.to_bits() == y.to_bits(), "symbol mask: method call and trait call differ");
            if let Some((m, _)) = self.sym_to_mask() {
                assert!(m.to_bits() == x.to_bits(), "symbol to_mask differs from mask");
            }
            Some(x)
        }
        fn sym_unmask(self) -> Option<Self> {
            let mut x = self;
            x.unmask();
            let mut y = self;
            <Self as MaskableMut>::unmask(&mut y);
            assert!(x.to_bits() == y.to_bits(), "symbol unmask: method call and trait call differ");
            if let Some((_, u)) = self.sym_to_mask() {
                assert!(u.to_bits() == x.to_bits(), "symbol to_unmask differs from unmask");
            }
            Some(x)
        }
        fn seq_mask(s: &mut Seq<Self>) -> bool {
            let mut t = s.clone();
            <Seq<Self> as MaskableMut>::mask(&mut t);
            s.mask();
            assert!(same_codes(&t, s), "Seq::mask: method call and trait call differ");
            true
        }
        fn seq_unmask(s: &mut Seq<Self>) -> bool {
            let mut t = s.clone();
            <Seq<Self> as MaskableMut>::unmask(&mut t);
            s.unmask();
            assert!(same_codes(&t, s), "Seq::unmask: method call and trait call differ");
            true
        }
        fn seq_to_mask(s: &Seq<Self>) -> Option<Seq<Self>> {
            let a = s.to_mask();
            let b = <Seq<Self> as Maskable>::to_mask(s);
            assert!(same_codes(&a, &b), "Seq::to_mask: method call and trait call differ");
            Some(a)
        }
        fn seq_to_unmask(s: &Seq<Self>) -> Option<Seq<Self>> {
            let a = s.to_unmask();
            let b = <Seq<Self> as Maskable>::to_unmask(s);
            assert!(same_codes(&a, &b), "Seq::to_unmask: method call and trait call differ");
            Some(a)
        }
    };
}

impl VC for Dna {
    fn sym_to_comp(self) -> Option<Self> {
        Some(<Self as Complement>::to_comp(&self))
    }
    const NAME: &'static str = "dna";
    const HAS_COMP: bool = true;
    const HAS_MASK: bool = false;
    comp_impl!();
}
impl VC for Iupac {
    fn sym_to_comp(self) -> Option<Self> {
        Some(<Self as Complement>::to_comp(&self))
    }
    fn sym_into_u8(self) -> Option<u8> {
        Some(u8::from(self))
    }
    const NAME: &'static str = "iupac";
    const HAS_COMP: bool = true;
    const HAS_MASK: bool = false;
    comp_impl!();
}
impl VC for Amino {
    fn sym_into_u8(self) -> Option<u8> {
        Some(u8::from(self))
    }
    const NAME: &'static str = "amino";
    const HAS_COMP: bool = false;
    const HAS_MASK: bool = false;
}
impl VC for text::Dna {
    fn sym_into_u8(self) -> Option<u8> {
        Some(u8::from(self))
    }
    const NAME: &'static str = "text";
    const HAS_COMP: bool = false;
    const HAS_MASK: bool = false;
}
impl VC for masked::Dna {
    fn sym_to_comp(self) -> Option<Self> {
        Some(<Self as Complement>::to_comp(&self))
    }
    const NAME: &'static str = "mdna";
    const HAS_COMP: bool = true;
    const HAS_MASK: bool = true;
    comp_impl!();
    mask_impl!();
}
impl VC for masked::Iupac {
    fn sym_to_mask(self) -> Option<(Self, Self)> {
        Some((<Self as Maskable>::to_mask(&self), <Self as Maskable>::to_unmask(&self)))
    }
    const NAME: &'static str = "miupac";
    const HAS_COMP: bool = true;
    const HAS_MASK: bool = true;
    comp_impl!();
    mask_impl!();
}
impl VC for degenerate::Dna {
    const NAME: &'static str = "degen";
    const HAS_COMP: bool = true;
    const HAS_MASK: bool = false;
    comp_impl!();
}

/// run a closure, mapping a panic to None
pub fn guard<T>(f: impl FnOnce() -> T) -> Option<T> {
    catch_unwind(AssertUnwindSafe(f)).ok()
}

#[macro_export]
macro_rules! for_codec {
    ($name:expr, $f:ident $(, $arg:expr)*) => {
        match $name {
            "dna" => $f::<bio_seq::prelude::Dna>($($arg),*),
            "iupac" => $f::<bio_seq::prelude::Iupac>($($arg),*),
            "amino" => $f::<bio_seq::prelude::Amino>($($arg),*),
            "text" => $f::<bio_seq::codec::text::Dna>($($arg),*),
            "mdna" => $f::<bio_seq::codec::masked::Dna>($($arg),*),
            "miupac" => $f::<bio_seq::codec::masked::Iupac>($($arg),*),
            "degen" => $f::<bio_seq::codec::degenerate::Dna>($($arg),*),
            other => panic!("unknown codec {other}"),
        }
    };
}
