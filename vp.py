#!/usr/bin/env python3
"""Driver of the Rocq/Coq verification of jeff-k/bio-seq.

  vp.py setup                      build the Coq development and the harness (dev + release)
  vp.py check <ID> [--tier T]      decide one property on /repo's current working tree
  vp.py replay <file>              re-run a replay file through the implementation and the model

Exit status of `check`: 0 = the property held on everything explored; 1 = VIOLATION line printed;
2 = the machinery itself failed (never a verdict)."""
import argparse
import json
import os
import random
import re
import sys
import time
import traceback

sys.path.insert(0, os.path.dirname(os.path.abspath(__file__)))
from vplib import checks  # noqa: E402
from vplib.common import CheckError, build_harness, coq_make, ensure_dirs, log  # noqa: E402


def main():
    ap = argparse.ArgumentParser()
    sub = ap.add_subparsers(dest="cmd")
    sub.add_parser("setup")
    c = sub.add_parser("check")
    c.add_argument("pid")
    c.add_argument("--tier", default=os.environ.get("VERIF_TIER", "quick"))
    r = sub.add_parser("replay")
    r.add_argument("path")
    args = ap.parse_args()
    ensure_dirs()
    if args.cmd == "setup":
        coq_make()
        for p in ("dev", "release"):
            ok, msg = build_harness(p)
            if not ok:
                print(msg)
                sys.exit(2)
        print("setup ok")
        return
    if args.cmd == "check":
        tier = args.tier if args.tier in ("quick", "thorough") else "quick"
        try:
            seed = int(os.environ.get("VERIF_SEED", "0"))
        except ValueError:
            seed = 0
        try:
            rc = checks.run_check(args.pid, tier, seed)
        except CheckError as e:
            log("machinery failure:", e)
            traceback.print_exc()
            rc = 2
        sys.exit(rc)
    if args.cmd == "replay":
        sys.exit(checks.replay(args.path))
    ap.print_help()
    sys.exit(2)


if __name__ == "__main__":
    main()
