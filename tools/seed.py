#!/usr/bin/env python3
"""Seeded-change bookkeeping.
  seed.py import <worktree> <name>          copy seeded/{patch.diff,demo.rs,meta.json} into /verif/seeded/<name>/
  seed.py verify <name>                      scratch worktree: existing tests pass with the change; demo fails with / passes without
  seed.py run <name> <ID> [<ID>...]          apply to /repo, run the checks (quick), undo; record which report a violation
"""
import json, os, shutil, subprocess, sys, time

VERIF = os.path.dirname(os.path.dirname(os.path.abspath(__file__)))
REPO = "/repo"
ENV = dict(os.environ, CARGO_NET_OFFLINE="true", RUST_BACKTRACE="0")


def sh(cmd, cwd=None, env=None, timeout=3600):
    p = subprocess.run(cmd, cwd=cwd, env=env or ENV, shell=isinstance(cmd, str), timeout=timeout,
                       stdout=subprocess.PIPE, stderr=subprocess.STDOUT, text=True)
    return p.returncode, p.stdout


def sdir(name):
    return os.path.join(VERIF, "seeded", name)


def load(name):
    p = os.path.join(sdir(name), "meta.json")
    return json.load(open(p)) if os.path.exists(p) else {}


def save(name, meta):
    json.dump(meta, open(os.path.join(sdir(name), "meta.json"), "w"), indent=1)


def cmd_import(wt, name):
    os.makedirs(sdir(name), exist_ok=True)
    src = os.path.join(wt, "seeded")
    for f in os.listdir(src):
        if os.path.isfile(os.path.join(src, f)):
            shutil.copy(os.path.join(src, f), os.path.join(sdir(name), f))
    print("imported", os.listdir(sdir(name)))


def cmd_verify(name):
    meta = load(name)
    wt = "/tmp/ver-" + name
    sh("git -C %s worktree remove --force %s" % (REPO, wt))
    rc, out = sh("git -C %s worktree add -q --detach %s HEAD" % (REPO, wt))
    assert rc == 0, out
    env = dict(ENV, CARGO_TARGET_DIR="/tmp/ver-target")
    res = {}
    try:
        feats = meta.get("features") or ""
        feats = feats if isinstance(feats, str) else ",".join(feats)
        feats = ",".join(f for f in ["translation", "extra_codecs", "serde"] if f in feats)
        fl = ("--features " + feats) if feats else ""
        demo = os.path.join(sdir(name), "demo.rs")
        tdir = os.path.join(wt, "bio-seq", "tests")
        os.makedirs(tdir, exist_ok=True)
        if os.path.exists(demo):
            shutil.copy(demo, os.path.join(tdir, "demo_seeded.rs"))
            rel = "--release " if "--release" in (meta.get("demo_cmd") or "") else ""
            demo_cmd = "cargo test %s--offline -p bio-seq %s --test demo_seeded" % (rel, fl)
        else:
            demo_cmd = meta.get("demo_cmd")
        rc0, out0 = sh(demo_cmd, cwd=wt, env=env)
        res["demo_without_change"] = "pass" if rc0 == 0 else "FAIL"
        rc, out = sh("git apply %s" % os.path.join(sdir(name), "patch.diff"), cwd=wt)
        assert rc == 0, "patch does not apply: " + out
        rc1, out1 = sh(demo_cmd, cwd=wt, env=env)
        res["demo_with_change"] = "fail" if rc1 != 0 else "PASSES (not a demonstration)"
        if os.path.exists(os.path.join(tdir, "demo_seeded.rs")):
            os.remove(os.path.join(tdir, "demo_seeded.rs"))
        rc2, out2 = sh("cargo test --workspace --offline", cwd=wt, env=env)
        rc3, out3 = sh("cargo test --offline --features translation,extra_codecs,serde -p bio-seq", cwd=wt, env=env)
        res["existing_tests_with_change"] = "pass" if rc2 == 0 else "FAIL"
        res["existing_tests_all_features_with_change"] = "pass" if rc3 == 0 else "FAIL"
        if rc2 != 0:
            print(out2[-2000:])
        if rc1 == 0:
            print(out1[-1500:])
        if rc0 != 0:
            print(out0[-1500:])
        res["demo_cmd"] = demo_cmd
    finally:
        sh("git -C %s worktree remove --force %s" % (REPO, wt))
    meta["verified"] = res
    save(name, meta)
    print(json.dumps(res, indent=1))


def cmd_run(name, pids):
    meta = load(name)
    rc, out = sh("git -C %s status --porcelain" % REPO)
    assert out.strip() == "", "/repo is not clean: " + out
    rc, out = sh("git -C %s apply %s" % (REPO, os.path.join(sdir(name), "patch.diff")))
    assert rc == 0, out
    det = meta.get("checks", {})
    try:
        for pid in pids:
            t = time.time()
            rc, out = sh(["python3", "vp.py", "check", pid], cwd=VERIF)
            lines = [l for l in out.splitlines() if l.startswith(("VIOLATION", "KNOWN"))]
            det[pid] = {"exit": rc, "violations": len(lines), "first": lines[0] if lines else "",
                        "wall_s": round(time.time() - t, 1)}
            rp = None
            if lines and "replay=" in lines[0]:
                rp = lines[0].split("replay=")[1].split()[0]
                try:
                    r = json.load(open(os.path.join(VERIF, rp)))
                    det[pid]["replay_excerpt"] = {k: r.get(k) for k in ("what", "codec", "profile", "script", "implementation_output",
                                                                         "model_output", "witness", "obligation") if k in r}
                except Exception:
                    pass
            print(pid, det[pid]["exit"], det[pid]["violations"], det[pid]["first"][:120], det[pid]["wall_s"])
    finally:
        sh("git -C %s checkout -- ." % REPO)
        sh("git -C %s clean -fdq" % REPO)
    meta["checks"] = det
    meta["detected_by"] = sorted(p for p, d in det.items() if d["exit"] == 1)
    save(name, meta)


if __name__ == "__main__":
    c = sys.argv[1]
    if c == "import":
        cmd_import(sys.argv[2], sys.argv[3])
    elif c == "verify":
        cmd_verify(sys.argv[2])
    elif c == "run":
        cmd_run(sys.argv[2], sys.argv[3:])


def cmd_sweep():
    """every seeded breaking change against the check of its property; every harmless one against all"""
    import glob
    rows = []
    for d in sorted(glob.glob(os.path.join(VERIF, "seeded", "*"))):
        name = os.path.basename(d)
        meta = load(name)
        if meta.get("kind", "").startswith(("harmless", "observable")):
            continue
        pid = meta.get("property")
        cmd_run(name, [pid])
        rows.append((name, pid, load(name)["checks"][pid]["exit"]))
    print("SWEEP", " ".join("%s:%s" % (n, "caught" if e == 1 else "MISSED(%s)" % e) for n, p, e in rows))


if __name__ == "__main__" and len(sys.argv) > 1 and sys.argv[1] == "sweep":
    cmd_sweep()
