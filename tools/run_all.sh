#!/bin/bash
# run every registered quick (or $1=thorough) check on /repo's current tree; one summary line each
cd "$(dirname "$0")/.."
TIER=${1:-quick}
rc=0
for p in C01 C02 C03 C04 C05 C06 C07 C08 C09 C10 C11 C12 C13 C14 C15 C16 C17 C18 C19 C20; do
  out=$(python3 vp.py check $p --tier $TIER 2>&1); r=$?
  echo "$p exit=$r $(echo "$out" | grep -c '^VIOLATION') violations; $(echo "$out" | grep 'obligations' | tail -1)"
  [ $r -ne 0 ] && rc=1
done
exit $rc
